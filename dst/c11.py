"""C11 - seeded runs are reproducible and independent of parallel scheduling.

Engine `worlds`: the same seeded subject (fresh Config, fresh simulator, program with
sampling) is put through a seed-chosen world - dask pool of W workers under the
cooperative scheduler, interferer operations placed around and *during* execute,
numba thread count, permanent kernels rebuilt from the working tree under a
simulated OpenMP runtime (hardware_concurrency answer, team size, member order),
an injected dask task failure with zombies - and must return exactly what a quiet
same-seed reference returned.

Engine `partitions`: kernel values for every answer of the concurrency query, every
team size and order: bit-identical on exactly representable instances, within
rounding on random ones; Gray-code ranges tile the index space exactly once.
"""

import copy
import random as _random

import numpy as np

from . import gen, spec, rngseam, sched as schedmod, native
from .common import Rng, EventLog, Violation

PROPERTY = "C11"
LEVEL = "exploration"
FAMILY_WALL_S = 900
RULE = (
    "family = one seed-generated subject (simulator, program with sampling, piquasso seed, shots<=16) or one kernel instance; evaluations = worlds run "
    "(each: quiet same-seed reference + perturbed run, compared exactly) plus kernel evaluations (instance x hardware_concurrency x team x order) plus different-seed comparisons; "
    "non-trivial = the world contained at least one perturbation that actually took effect (dask pool with >1 task, interferer executed, native kernel called, numba threads != 1, injected task failure) "
    "or, for kernels, K>1; distinct = distinct event-log digests (every draw with generator name and task, every yield and context switch, interferer ops, outputs)"
)
REAL = [
    "piquasso sources from the working tree (all six simulators, NumPy connector), numba kernels with their real thread pool (only the thread count is controlled)",
    "permanent / permanent_laplace C++ kernels compiled from /repo/src by the check (n_aryGrayCodeCounter.hpp, matrix.hpp included)",
    "numpy Generator and random streams (record mode: the numbers piquasso sees are the shipped ones)",
]
STUBBED = [
    "dask: graph ordering and the thread pool are replaced by the cooperative scheduler through dask.config.set(scheduler=<callable>); task bodies are real piquasso code",
    "libgomp: GOMP_parallel, omp_get_thread_num/num_threads and std::thread::hardware_concurrency are answered by the simulator (native/sim_omp.cpp); team members run one after another",
    "pybind11 glue of the permanent module (cannot be rebuilt here): arrays are handed to the rebuilt kernels through ctypes",
    "os.urandom as seen by piquasso.api.config: seeded stream",
]
ASSUMPTIONS = [
    "the subject's Config object is never handed to another simulator: two simulators built from the same Config object share one generator by design",
    "floats are compared to 1e-9 relative (BLAS/numba reassociation across thread counts is legal), integers exactly",
    "interleavings are explored at yield points (task start/end, every draw on any generator, optionally line events in piquasso code), not between arbitrary bytecodes; instruction-level races inside an OpenMP/numba parallel region are out of scope",
    "programs are built outside the concurrent region (the `with pq.Program()` registry is a process-global stack no listed property makes thread-safe)",
]
ENV = {"NUMBA_NUM_THREADS": "16", "OMP_THREAD_LIMIT": "8"}

SIMS = [("PassiveSimulator", 8), ("GaussianSimulator", 6), ("PureFockSimulator", 4), ("FermionicPureFockSimulator", 1), ("FockSimulator", 1), ("FermionicGaussianSimulator", 1)]
HC_VALUES = (0, 1, 2, 3, 5, 8, 16, 61, 64, 255)
INTERFERERS = ("config_unseeded", "config_seeded", "config_same_seed", "repr_config", "repr_other_simulator", "repr_subject_simulator", "as_code_subject", "config_eq", "other_simulation", "py_random_draw", "py_random_seed", "np_legacy_seed", "cache_clear", "numba_threads", "build_program")
PLACES = ("before_config", "after_config", "after_simulator", "during_execute", "before_samples")


def plan(tier):
    if tier == "thorough":
        return {"families": 28000, "budget_s": 2700, "grace_s": 600}
    return {"families": 900, "budget_s": 200, "grace_s": 300}


_K = None


def setup(tier):
    global _K
    import piquasso  # noqa: F401
    import dask  # noqa: F401

    _K = native.load()


def prepare(tier):
    """Driver-side, once: build the native library before the workers race for it."""
    path = native.build()
    return {"native_library": path.split("/")[-1]}


# --------------------------------------------------------------------------- record policy


class RecordPolicy(rngseam.Policy):
    def __init__(self, log, scheduler=None):
        super().__init__(log)
        self.scheduler = scheduler
        self.by_source = {}  # generator name -> set of task ids that drew from it

    def on_new_generator(self, proxy):
        super().on_new_generator(proxy)
        s = self.scheduler
        t = s.current_task() if s is not None else None
        proxy.__dict__["_creator"] = t.tid if t is not None else -1

    def on_draw(self, source, method, info):
        s = self.scheduler
        if s is None:
            return
        t = s.current_task()
        tid = t.tid if t is not None else -1
        self.by_source.setdefault(source, []).append(tid)
        if t is None:
            return
        # A draw is a pre-emption point when more than one task can reach the generator: generators
        # of the random module / random.Random objects (owned by a Config or process-global), numpy
        # generators created outside the drawing task (Config.rng, anything made by the caller) and
        # any generator already drawn from by another task.  A generator created and used inside one
        # task (the per-shot generators) cannot be raced on, and rejection loops draw from it
        # thousands of times.
        creator = getattr(info, "_creator", None) if info is not None else None
        if creator is None or creator != tid or len(set(self.by_source[source])) > 1:
            s.yield_point(("rng", source, method))


class InjectedTaskFailure(RuntimeError):
    pass


# --------------------------------------------------------------------------- interferers


def _clear_caches():
    import sys

    n = 0
    for name, mod in list(sys.modules.items()):
        if not name.startswith("piquasso") or mod is None:
            continue
        for v in list(vars(mod).values()):
            cc = getattr(v, "cache_clear", None)
            if callable(cc) and hasattr(v, "cache_info"):
                cc()
                n += 1
    return n


def run_interferer(op, ctx):
    import piquasso as pq

    kind = op["op"]
    if kind == "config_unseeded":
        pq.Config()
    elif kind == "config_seeded":
        pq.Config(seed_sequence=op.get("seed", 77))
    elif kind == "config_same_seed":
        pq.Config(seed_sequence=ctx["subject"]["config"]["seed_sequence"])
    elif kind == "repr_config":
        repr(pq.Config(seed_sequence=3, cutoff=5))
    elif kind == "repr_other_simulator":
        repr(pq.PureFockSimulator(d=2, config=pq.Config(seed_sequence=9)))
    elif kind == "repr_subject_simulator":
        if ctx.get("simulator") is not None:
            repr(ctx["simulator"])
            str(ctx["simulator"].config)
    elif kind == "as_code_subject":
        if ctx.get("simulator") is not None:
            try:
                pq.as_code(ctx["program"], ctx["simulator"], shots=3)
            except Exception:  # noqa: BLE001 - conditioned / array-valued programs cannot be exported
                ctx["simulator"]._as_code()
    elif kind == "config_eq":
        _ = pq.Config() == pq.Config(cutoff=5)
    elif kind == "other_simulation":
        # often the same simulator and width as the subject but another cutoff / hbar / dtype: what a cache
        # whose key omits one of them would confuse
        subj = ctx["subject"]
        r = Rng(op.get("seed", 5), "other")
        sim_name = subj["sim"] if r.chance(0.6) else op.get("sim", "PureFockSimulator")
        sub = gen.gen_subject(op.get("seed", 5), sim_name, shots=op.get("shots", 3), d=subj["d"] if r.chance(0.7) else 2, mid=r.chance(0.3))
        if "cutoff" in sub["config"] and r.chance(0.5):
            sub["config"]["cutoff"] = max(2, subj["config"].get("cutoff", 4) + r.pick([-1, 1, 2]))
        if r.chance(0.4):
            sub["config"]["hbar"] = r.pick([1.0, 1.7, 3.0])
        if r.chance(0.2):
            sub["config"]["dtype"] = "float32"
        try:
            r = spec.build_simulator(sub).execute(spec.build_program(sub["program"]), shots=sub["shots"])
            r.samples
        except Exception:  # noqa: BLE001
            pass
    elif kind == "py_random_draw":
        _random.random()
    elif kind == "py_random_seed":
        _random.seed(op.get("seed", 4))
    elif kind == "np_legacy_seed":
        np.random.seed(op.get("seed", 4))
    elif kind == "cache_clear":
        _clear_caches()
    elif kind == "numba_threads":
        import numba

        numba.set_num_threads(max(1, min(16, op.get("k", 2))))
    elif kind == "build_program":
        with pq.Program():
            pq.Q(0) | pq.Phaseshifter(0.1)
    else:
        raise KeyError(kind)


# --------------------------------------------------------------------------- one world


QUIET = {"dask": False, "pool": 1, "fail_fast": True, "schedule": {"kind": "default"}, "fine": 0.0, "numba_threads": 1, "native": None, "interferers": [], "task_failure": None, "caches": "keep"}


def run_world(subject, world, log=None):
    """-> dict(outputs..., stats...).  Raises whatever execute raises."""
    import dask
    import numba
    import piquasso as pq

    log = log if log is not None else EventLog()
    sch = schedmod.Scheduler(world.get("schedule"), log=log, fine=world.get("fine", 0.0), fine_seed=world.get("fine_seed", 0), step_cap=world.get("step_cap", 100000))
    policy = RecordPolicy(log, sch)
    seam = rngseam.Seam(policy, urandom_seed=world.get("urandom_seed", 1), log=log)
    stats = {"interferers": {}, "pool_tasks": 0, "native_calls": 0}
    ctx = {"subject": subject}
    simcls = spec.simulator_class(subject["sim"])
    program = spec.build_program(subject["program"])
    ctx["program"] = program

    def interfere(where):
        for op in world.get("interferers", []):
            if op["where"] == where:
                run_interferer(op, ctx)
                log.add("interferer", where, op["op"])
                stats["interferers"][op["op"]] = stats["interferers"].get(op["op"], 0) + 1

    with seam:
        # declared process state
        _random.seed(world.get("global_seed", 2024))
        np.random.seed(world.get("global_seed", 2024) % 2**32)
        if world.get("caches") == "cold":
            _clear_caches()
        numba.set_num_threads(world.get("numba_threads", 1))
        connector = None
        if world.get("native") and subject["sim"] == "PassiveSimulator":
            nat = world["native"]
            _K.set_world(nat["hc"], nat.get("team", 0), nat.get("order", 0))
            connector = native.sim_connector(_K)
            calls0 = _K.calls
        failure = world.get("task_failure")
        attempts = 2 if failure else 1
        result = None
        try:
            # `num_workers` is how a user sizes dask's pool; the simulated pool has the same size
            with dask.config.set(scheduler=_failing(schedmod.dask_get(sch, world.get("pool", 4), world.get("fail_fast", True)), failure, sch, stats), num_workers=world.get("pool", 4)):
                for attempt in range(attempts):
                    interfere("before_config") if attempt == 0 else None
                    cfg_fields = dict(subject["config"])
                    if world.get("dask"):
                        cfg_fields["use_dask"] = True
                    cfg = spec.build_config(cfg_fields)
                    interfere("after_config") if attempt == 0 else None
                    sim = simcls(d=subject["d"], config=cfg, connector=connector)
                    ctx["simulator"] = sim
                    interfere("after_simulator") if attempt == 0 else None
                    main = sch.spawn(lambda: sim.execute(program, shots=subject["shots"]), "caller%d" % attempt)
                    during = [op for op in world.get("interferers", []) if op["where"] == "during_execute"]
                    if during and attempt == 0:

                        def other():
                            for op in during:
                                sch.yield_point(("interferer", op["op"]))
                                run_interferer(op, ctx)
                                log.add("interferer", "during_execute", op["op"])
                                stats["interferers"][op["op"]] = stats["interferers"].get(op["op"], 0) + 1

                        sch.spawn(other, "interferer-thread")
                    sch.run(until=lambda: main.done)
                    if main.exc is not None:
                        if failure and attempt == 0 and isinstance(main.exc, InjectedTaskFailure):
                            log.add("execute-failed-as-injected")
                            stats["task_failures_injected"] = 1
                            continue  # zombies stay; second execute on fresh same-seed objects
                        raise main.exc
                    result = main.result
                    break
                interfere("before_samples")
                out = {"samples": spec.plain(result.samples)}
                try:
                    out["counts"] = sorted((spec.plain(k), v) for k, v in result.get_counts().items())
                except NotImplementedError:
                    out["counts"] = None
                out["branches"] = [(spec.plain(b.outcome), b.frequency) for b in result.branches]
                sch.drain()
        finally:
            try:
                sch.drain()
            except Exception:  # noqa: BLE001
                pass
            numba.set_num_threads(1)
    if connector is not None:
        stats["native_calls"] = _K.calls - calls0
    stats.update(steps=sch.steps, switches=sch.switches, yields=sch.yields, line_events=sch.line_events, tasks=len(sch.tasks), draws=policy.n_draws, global_random_calls=seam.global_random_calls, urandom_calls=seam.urandom_calls)
    stats["shared_generators"] = sorted(k for k, v in policy.by_source.items() if len(set(v)) > 1)
    stats["access_order"] = [tuple(v) for k, v in sorted(policy.by_source.items()) if len(set(v)) > 1]
    stats["deviations"] = list(sch.deviations)
    stats["interleaving"] = tuple(sch.order)
    log.add("outputs", out["samples"], out["counts"])
    return out, stats, log


def _failing(get, failure, sch, stats):
    if not failure:
        return _counting(get, stats)
    state = {"calls": 0}

    def wrapped(dsk, keys, **kw):
        state["calls"] += 1
        if state["calls"] != 1:
            return _counting(get, stats)(dsk, keys, **kw)
        from dask._task_spec import convert_legacy_graph

        graph = dsk.__dask_graph__() if hasattr(dsk, "__dask_graph__") else dsk
        g = convert_legacy_graph(graph)
        flat = [k for ks in keys for k in (ks if isinstance(ks, list) else [ks])]
        victim = failure.get("task", 0) % max(1, len(flat))

        def make(i, k):
            def fn():
                if i == victim:
                    sch.yield_point(("about-to-fail", i))
                    raise InjectedTaskFailure("injected failure of dask task %d" % i)
                return g[k]({})

            return fn

        stats["pool_tasks"] += len(flat)
        return tuple([r] for r in sch.compute([make(i, k) for i, k in enumerate(flat)], failure.get("pool", 4), failure.get("fail_fast", True)))

    return wrapped


def _counting(get, stats):
    def wrapped(dsk, keys, **kw):
        stats["pool_tasks"] += len(keys)
        return get(dsk, keys, **kw)

    return wrapped


def outputs_equal(a, b):
    for k in ("samples", "counts", "branches"):
        if not spec.close(_t(a[k]), _t(b[k])):
            return k
    return None


def _t(x):
    if isinstance(x, list):
        return tuple(_t(v) for v in x)
    if isinstance(x, tuple):
        return tuple(_t(v) for v in x)
    return x


# --------------------------------------------------------------------------- generation


def gen_world(rng, subject):
    w = copy.deepcopy(QUIET)
    w["global_seed"] = rng.randrange(1, 2**31)
    w["urandom_seed"] = rng.randrange(1, 2**31)
    feats = set()
    # swarm: which perturbation kinds are enabled at all in this world
    if rng.chance(0.6):
        w["dask"] = True
        w["pool"] = rng.pick([1, 2, 2, 3, 4, 4, 5, 7, 8, 16])
        w["fail_fast"] = rng.chance(0.5)
        kind = rng.pick(["default", "walk", "walk", "pct"])
        w["schedule"] = {"kind": kind, "seed": rng.randrange(2**31), "p": rng.pick([0.1, 0.3, 0.6, 0.9]), "changes": rng.randrange(1, 4)}
        if rng.chance(0.15):
            w["fine"] = rng.pick([0.02, 0.1, 0.5])
            w["fine_seed"] = rng.randrange(2**31)
    if rng.chance(0.5):
        w["numba_threads"] = rng.randrange(1, 17)
    if subject["sim"] == "PassiveSimulator" and rng.chance(0.5):
        hc = rng.pick(HC_VALUES)
        w["native"] = {"hc": hc, "team": rng.pick([0, 0, 1, 2, 3, 7]), "order": rng.pick([0, 1, rng.randrange(2, 2**31)])}
    if rng.chance(0.65):
        for _ in range(rng.randrange(1, 5)):
            op = {"op": rng.pick(INTERFERERS), "where": rng.pick(PLACES), "seed": rng.randrange(1, 10**6), "k": rng.randrange(1, 17), "sim": rng.pick(["PureFockSimulator", "PassiveSimulator", "GaussianSimulator"]), "shots": rng.randrange(1, 5)}
            w["interferers"].append(op)
        if any(op["where"] == "during_execute" for op in w["interferers"]) and w["schedule"]["kind"] == "default":
            w["schedule"] = {"kind": "walk", "seed": rng.randrange(2**31), "p": 0.5}
    if w["dask"] and rng.chance(0.12):
        w["task_failure"] = {"task": rng.randrange(0, 16), "pool": w["pool"], "fail_fast": w["fail_fast"]}
    w["caches"] = rng.pick(["keep", "keep", "cold"])
    return w


SEEDS = (0, 1, 2, 7, 123, 2**31 - 1, 2**31 + 1, 2**63, 2**64 + 5)


def gen_subject(rng, tier="quick"):
    sim = rng.weighted(SIMS)
    opts = {"allow_no_terminal": False, "postselect": rng.chance(0.3), "correlated_dyne_p": 0.3}
    max_shots = 16 if tier == "quick" else 40  # batching / remainder logic only shows beyond a few shots per worker
    sub = gen.finalise(gen.gen_subject(rng.randrange(2**62), sim, shots=rng.randrange(1, max_shots + 1), **opts))
    sub["config"]["seed_sequence"] = rng.pick(SEEDS) if rng.chance(0.4) else rng.randrange(1, 10**9)
    return sub


def features_of(world, stats):
    f = []
    if world.get("dask") and stats.get("pool_tasks", 0) >= 1:
        f.append("dask")
        if world.get("pool", 1) > 1 and stats.get("switches", 0) > 0:
            f.append("interleaving")
    if stats.get("native_calls", 0) > 0:
        f.append("native")
    if world.get("numba_threads", 1) != 1:
        f.append("numba")
    for k in sorted(stats.get("interferers", {})):
        f.append("interferer:" + k)
    if stats.get("task_failures_injected"):
        f.append("task-failure")
    if world.get("global_seed", 2024) != 2024:
        # the declared state of the process-global generators (random, legacy numpy.random) at the start of the
        # world differs from the reference's: not a perturbation by itself, but it is what a minimised world
        # keeps when a result depends on a process-global generator
        f.append("process-global-rng-state")
    if world.get("urandom_seed", 1) != 1 and stats.get("urandom_calls"):
        f.append("os-urandom-stream")
    return f


# --------------------------------------------------------------------------- judging


def judge_world(sc):
    subject, world = sc["subject"], sc["world"]
    facts = {"sim": subject["sim"], "kind": "world", "seed": subject["config"]["seed_sequence"], "tail": subject["program"][-1]["type"]}
    try:
        ref, ref_stats, ref_log = run_world(subject, copy.deepcopy(QUIET))
    except schedmod.StepCapExceeded:
        raise
    except Exception as e:  # noqa: BLE001 - refusing a valid program is C13's matter
        return {"status": "discard", "detail": "reference raised %s: %s" % (type(e).__name__, str(e)[:100]), "counters": {"discards": {type(e).__name__: 1}}}
    try:
        out, stats, log = run_world(subject, world)
    except schedmod.StepCapExceeded as e:
        return {"status": "violation", "sig": "C11/progress/step-cap", "detail": str(e), "facts": facts, "digest": None}
    except Exception as e:  # noqa: BLE001
        feats = ["dask"] if world.get("dask") else []
        return {"status": "violation", "sig": "C11/same-seed/world-raises", "detail": "quiet reference returned, the world raised %s: %s" % (type(e).__name__, str(e)[:160]), "facts": dict(facts, exception=type(e).__name__), "digest": None}
    feats = features_of(world, stats)
    counters = {
        "worlds": 1,
        "yield_points": stats["yields"],
        "context_switches": stats["switches"],
        "scheduler_steps": stats["steps"],
        "line_events": stats["line_events"],
        "draws": stats["draws"],
        "pool_tasks": stats["pool_tasks"],
        "native_calls": stats["native_calls"],
        "task_failures_injected": stats.get("task_failures_injected", 0),
        "interferers_by_kind": stats["interferers"],
        "by_sim": {subject["sim"]: 1},
        "tails": {subject["program"][-1]["type"]: 1},
        "worlds_with": {f.split(":")[0]: 1 for f in feats},
    }
    if world.get("dask"):
        counters["pool_sizes"] = {str(world["pool"]): 1}
    if world.get("numba_threads", 1) != 1:
        counters["numba_thread_counts"] = {str(world["numba_threads"]): 1}
    if stats["native_calls"]:
        counters["hc_values"] = {str(world["native"]["hc"]): 1}
        counters["team_sizes"] = {str(world["native"].get("team", 0)): 1}
    rec = {"digest": log.digest(), "counters": counters, "nontrivial": bool([f for f in feats if f not in ("process-global-rng-state", "os-urandom-stream")]), "sets": {"shared_access_orders": [repr(o) for o in stats["access_order"]], "interleavings": [repr((len(sc["subject"]["program"]), stats["tasks"], stats["interleaving"]))] if stats["switches"] else []}, "facts": facts}
    bad = outputs_equal(ref, out)
    if bad is None:
        rec["status"] = "pass"
        return rec
    cause = []
    if stats["shared_generators"]:
        cause.append("shared-generator:" + ",".join(_generic(g) for g in stats["shared_generators"]))
    if stats["global_random_calls"] and (stats["interferers"] or stats.get("urandom_calls")):
        cause.append("global-random-drawn")
    rec.update(status="violation", sig="C11/same-seed/differs", detail="%s differ from the quiet same-seed reference; world features %s; diagnostics %s; ref %s... got %s..." % (bad, feats, cause, str(ref[bad])[:120], str(out[bad])[:120]))
    rec["facts"].update(features=feats, diagnostics=cause)
    return rec


def _generic(name):
    return "gen" if name.startswith("gen(") else name.split("@")[0]


def judge_seeds(sc):
    """Verdict 3: for non-deterministic measurements different seeds give different sample sequences."""
    subject = sc["subject"]
    s = subject["config"]["seed_sequence"]
    facts = {"sim": subject["sim"], "kind": "seeds", "seed": s, "tail": subject["program"][-1]["type"]}
    try:
        base, _st, log = run_world(subject, copy.deepcopy(QUIET))
    except Exception as e:  # noqa: BLE001
        return {"status": "discard", "detail": "reference raised %s" % type(e).__name__, "counters": {"discards": {type(e).__name__: 1}}}
    samples = base["samples"]
    from collections import Counter

    top = Counter(samples).most_common(1)[0][1] if samples else 0
    if len(samples) < 64 or top > 0.4 * len(samples):
        return {"status": "discard", "detail": "outcome too concentrated for the different-seeds verdict", "counters": {"discards": {"concentrated": 1}}}
    for other in sc["others"]:
        sub2 = copy.deepcopy(subject)
        sub2["config"]["seed_sequence"] = other
        try:
            o, _st, _l = run_world(sub2, copy.deepcopy(QUIET))
        except Exception as e:  # noqa: BLE001 - e.g. the documented "too many trials" refusal for this seed
            return {"status": "discard", "detail": "other seed raised %s" % type(e).__name__, "counters": {"discards": {type(e).__name__: 1}}}
        if spec.close(_t(o["samples"]), _t(samples)):
            return {"status": "violation", "sig": "C11/different-seeds/same-samples", "detail": "seeds %d and %d give identical %d-shot sample sequences although the most frequent outcome has share %.2f" % (s, other, len(samples), top / len(samples)), "facts": facts, "digest": log.digest()}
    return {"status": "pass", "digest": log.digest(), "counters": {"different_seed_comparisons": len(sc["others"]), "by_sim": {subject["sim"]: 1}}, "nontrivial": True, "facts": facts}


# --------------------------------------------------------------------------- partitions


def _exact_instance(rng, n):
    """Gaussian-integer entries and small multiplicities: every intermediate is exactly representable
    (entries in {-1,0,1}(+i{-1,0,1}) for larger multiplicities: |column sum| <= 2*total, products of <= total
    factors stay far below 2^53)."""
    total = rng.randrange(1, 9)  # <= 8: 256 terms of at most (2*8*sqrt 2)^8 * C(8,4) ~ 5e12 each stay below 2^53 in sum
    lim = 3 if total <= 6 else 2
    a = np.array([[complex(rng.randrange(-lim + 1, lim), rng.randrange(-lim + 1, lim)) for _ in range(n)] for _ in range(n)])
    rows = [0] * n
    cols = [0] * n
    for _ in range(total):
        rows[rng.randrange(n)] += 1
        cols[rng.randrange(n)] += 1
    return a, rows, cols


def _random_instance(rng, n):
    g = spec._real_default_rng(rng.randrange(2**31))
    a = g.normal(size=(n, n)) + 1j * g.normal(size=(n, n))
    total = rng.randrange(1, 11)
    rows = [0] * n
    cols = [0] * n
    for _ in range(total):
        rows[rng.randrange(n)] += 1
        cols[rng.randrange(n)] += 1
    return a, rows, cols


def _idx_max(rows):
    nz = [r for r in rows]
    # mirrors the kernel: the smallest non-zero multiplicity is split off; limits are rows[1:]+1 after that
    minelem = 0
    min_idx = 0
    for i, r in enumerate(nz):
        if minelem == 0 or (r < minelem and r != 0):
            minelem = r
            min_idx = i
    if minelem != 0:
        nz = [1] + nz
        nz[1 + min_idx] -= 1
    m = 1
    for r in nz[1:]:
        m *= r + 1
    return m


def judge_partition(sc):
    K = _K
    a = np.array([[complex(*z) for z in row] for row in sc["matrix"]])
    rows, cols = sc["rows"], sc["cols"]
    exact = sc["exact"]
    dtype = np.complex64 if sc.get("single") else np.complex128
    a = a.astype(dtype)
    facts = {"kind": "partition", "exact": exact, "single": bool(sc.get("single"))}
    evals = 0
    K.set_world(1, 1, 0)
    # K=1: hc such that 4*hc >= 1 always gives K>=4 unless idx_max smaller; the K=1 baseline is team=1 of the smallest K
    base_p = K.permanent(a, rows, cols)
    base_l = K.permanent_laplace(a, rows, cols)
    idx_max = _idx_max(rows)
    # every Glynn term is bounded by B = prod_j (sum_i rows_i |a_ij|)^cols_j and their average is the result,
    # so rounding moves the value by at most ~(#operations) * eps * B whatever the partition
    tol_scale = float(np.prod([(np.sum(np.asarray(rows) * np.abs(a[:, j]))) ** cols[j] for j in range(a.shape[1])])) * (sum(rows) + 2) if not exact else 0.0
    eps = np.finfo(np.float32 if sc.get("single") else np.float64).eps
    seen_K = set()
    bitexact = 0
    for hc in sc["hcs"]:
        k_jobs = min(4 * hc, idx_max)
        per_K = {}
        for team, order in sc["teams"]:
            K.set_world(hc, team, order)
            p = K.permanent(a, rows, cols)
            lp = K.permanent_laplace(a, rows, cols)
            evals += 2
            seen_K.add(k_jobs)
            facts["hc"] = hc
            if k_jobs == 0:
                # no job at all: the kernel returns 0 for a matrix whose permanent is not 0
                if base_p != 0 and p == 0:
                    return {"status": "violation", "sig": "C11/partition/K=0", "detail": "hardware_concurrency()=0: permanent returned %r, reference %r" % (p, base_p), "facts": facts, "evaluations": evals}
            if exact:
                if p != base_p or not np.array_equal(lp, base_l):
                    return {"status": "violation", "sig": "C11/partition/value", "detail": "exactly representable instance: hc=%d (K=%d) team=%d order=%d gives permanent %r / laplace %r, K-independent reference %r / %r" % (hc, k_jobs, team, order, p, lp.tolist(), base_p, base_l.tolist()), "facts": facts, "evaluations": evals}
                bitexact += 1
            else:
                tol = 64 * eps * max(tol_scale, 1e-300)
                if abs(p - base_p) > tol or np.max(np.abs(lp - base_l)) > tol:
                    return {"status": "violation", "sig": "C11/partition/value", "detail": "hc=%d (K=%d) team=%d order=%d: permanent %r vs reference %r (tolerance %.3g)" % (hc, k_jobs, team, order, p, base_p, tol), "facts": facts, "evaluations": evals}
            key = (p, tuple(lp.tolist()))
            per_K.setdefault(k_jobs, key)
            if per_K[k_jobs] != key:
                return {"status": "violation", "sig": "C11/partition/team-dependence", "detail": "fixed K=%d: team=%d order=%d changes the bits of the result (%r vs %r)" % (k_jobs, team, order, key[0], per_K[k_jobs][0]), "facts": facts, "evaluations": evals}
    # conservation of the Gray-code split
    limits = sc.get("limits")
    tiles = 0
    if limits:
        m = 1
        for x in limits:
            m *= x
        for jobs in sc["jobs"]:
            if 1 <= jobs <= m:
                rc = K.tiling(limits, jobs)
                tiles += 1
                if rc != 0:
                    return {"status": "violation", "sig": "C11/partition/tiling", "detail": "limits %s split into %d jobs: error code %d (1 ended early, 2 out of range, 3 repeated code, 4 offset init != stepped, 5 walk diverges, 6 not visited exactly once)" % (limits, jobs, rc), "facts": facts, "evaluations": evals}
    log = EventLog()
    log.add("partition", sc["matrix"], rows, cols, sorted(seen_K), repr(base_p))
    return {"status": "pass", "digest": log.digest(), "evaluations": evals + tiles, "nontrivial": max(seen_K or [0]) > 1, "counters": {"partition_instances": 1, "kernel_evaluations": evals, "bit_exact_comparisons": bitexact, "tilings_checked": tiles, "hc_values": {str(h): 1 for h in sc["hcs"]}, "K_values": {str(k): 1 for k in seen_K}}, "facts": facts}


def gen_partition(rng, tier):
    n = rng.randrange(1, 6)
    exact = rng.chance(0.6)
    a, rows, cols = (_exact_instance if exact else _random_instance)(rng, n)
    idx_max = _idx_max(rows)
    hcs = sorted(set([0, 1, 2, 3, 16] + [rng.pick(HC_VALUES) for _ in range(2)] + [max(0, (idx_max + 3) // 4 + d) for d in (-1, 0, 1)]))
    # every answer of the concurrency query that changes the split: K = min(4*hc, idx_max) takes a new value for
    # each hc up to idx_max/4 (non-power-of-two core counts - 7, 11, 13, 14, 22, 26, 28 - are where splits go wrong)
    hcs = sorted(set(hcs) | set(range(0, min(idx_max // 4 + 3, 40 if tier == "quick" else 130))))
    teams = [(0, 0), (1, 0), (0, 1), (2, rng.randrange(2, 2**31)), (3, rng.randrange(2, 2**31)), (0, rng.randrange(2, 2**31))]
    limits = [rng.randrange(1, 5) for _ in range(rng.randrange(1, 5))]
    m = 1
    for x in limits:
        m *= x
    jobs = sorted(set([1, 2, 3, m, max(1, m - 1), max(1, m // 2)] + [rng.randrange(1, m + 1) for _ in range(4)]))
    return {"check": "c11", "kind": "partition", "matrix": [[[z.real, z.imag] for z in row] for row in a.tolist()], "rows": rows, "cols": cols, "exact": exact, "single": (not exact) and rng.chance(0.3), "hcs": hcs, "teams": teams, "limits": limits, "jobs": jobs}


# --------------------------------------------------------------------------- numba thread counts


def judge_numba(sc):
    """Deterministic quantities do not depend on the numba thread count."""
    import numba

    subject = sc["subject"]
    facts = {"sim": subject["sim"], "kind": "numba"}
    outs = []
    for k in sc["threads"]:
        numba.set_num_threads(k)
        try:
            sim = spec.build_simulator(subject)
            res = sim.execute(spec.build_program(subject["program"]), shots=None if sc.get("exact") else subject["shots"])
            view = [(spec.plain(b.outcome), float(b.frequency)) for b in res.branches]
            st = res.branches[0].state
            arrs = []
            if st is not None and len(res.branches) == 1:
                for name, v in sorted(vars(st).items()):
                    if isinstance(v, np.ndarray) and v.dtype.kind in "fc":
                        arrs.append((name, v.copy()))
            outs.append((k, view, arrs))
        except Exception as e:  # noqa: BLE001
            numba.set_num_threads(1)
            return {"status": "discard", "detail": "raised %s" % type(e).__name__, "counters": {"discards": {type(e).__name__: 1}}}
    numba.set_num_threads(1)
    k0, v0, a0 = outs[0]
    for k, v, a in outs[1:]:
        if len(v) != len(v0) or any(o != o0 or abs(f - f0) > 1e-9 * max(1.0, abs(f0)) for (o, f), (o0, f0) in zip(v, v0)):
            return {"status": "violation", "sig": "C11/thread-count/weights", "detail": "numba threads %d vs %d: exact branch weights differ" % (k, k0), "facts": facts}
        for (n1, x1), (n0, x0) in zip(a, a0):
            if x1.shape != x0.shape or not np.allclose(x1, x0, rtol=1e-9, atol=1e-12):
                return {"status": "violation", "sig": "C11/thread-count/state", "detail": "numba threads %d vs %d: state field %s differs" % (k, k0, n1), "facts": facts}
    log = EventLog()
    log.add("numba", sc["threads"], v0)
    return {"status": "pass", "digest": log.digest(), "nontrivial": True, "evaluations": len(outs), "counters": {"numba_thread_comparisons": len(outs) - 1, "numba_thread_counts": {str(k): 1 for k in sc["threads"]}}, "facts": facts}


# --------------------------------------------------------------------------- family runner


def judge(sc):
    kind = sc["kind"]
    if kind == "world":
        return judge_world(sc)
    if kind == "seeds":
        return judge_seeds(sc)
    if kind == "partition":
        return judge_partition(sc)
    if kind == "numba":
        return judge_numba(sc)
    raise KeyError(kind)


def run_index(seed, idx, tier):
    rng = Rng(seed, "c11", idx)
    out = []

    def emit(sc):
        rec = judge(sc)
        if rec["status"] == "violation":
            sc2, rec2 = shrink(sc, rec)
            rec = rec2
            rec["scenario"] = sc2
        if idx % 113 == 0 and sc["kind"] == "world" and not any(r.get("sample") for r in out):
            rec["sample"] = sc
        out.append(rec)
        return rec

    if idx % 4 == 3:
        for _ in range(6 if tier == "quick" else 12):  # kernel evaluations cost microseconds
            emit(gen_partition(rng, tier))
        return out
    subject = gen_subject(rng, tier)
    n_worlds = 3 if tier == "quick" else 5
    for j in range(n_worlds):
        rec = emit({"check": "c11", "kind": "world", "subject": subject, "world": gen_world(rng, subject)})
        if rec["status"] == "discard":
            break
    if out and out[0]["status"] != "discard":
        if idx % 5 == 0:
            s = subject["config"]["seed_sequence"]
            big = copy.deepcopy(subject)
            big["shots"] = 64
            emit({"check": "c11", "kind": "seeds", "subject": big, "others": [s + 1, s + 64, rng.randrange(1, 10**9)]})
        if idx % 7 == 0 and subject["sim"] in ("PureFockSimulator", "FockSimulator", "GaussianSimulator", "PassiveSimulator"):
            ths = sorted(set([1, 16] + [rng.randrange(2, 16) for _ in range(2)]))
            from .c12 import supports_shots_none

            emit({"check": "c11", "kind": "numba", "subject": subject, "threads": ths, "exact": supports_shots_none(subject)})
    return out


def replay(sc):
    rec = judge(sc)
    if rec["status"] == "violation" and sc["kind"] == "world":
        rec["sig"] = final_signature(sc, rec)
    return rec


def final_signature(sc, rec):
    feats = rec.get("facts", {}).get("features")
    if rec.get("sig") != "C11/same-seed/differs" or feats is None:
        return rec.get("sig")
    return "C11/same-seed/differs:" + ("+".join(feats) if feats else "quiet")


def shrink(sc, rec, max_runs=70):
    """Ablate the world until only the perturbations needed for the disagreement remain."""
    if sc["kind"] != "world" or rec.get("sig") != "C11/same-seed/differs":
        return sc, rec
    runs = [0]
    best = [rec]

    def still(cand):
        runs[0] += 1
        if runs[0] > max_runs:
            return False
        try:
            r = judge_world(cand)
        except Exception:  # noqa: BLE001
            return False
        if r["status"] == "violation" and r.get("sig") == "C11/same-seed/differs":
            best[0] = r
            return True
        return False

    cur = copy.deepcopy(sc)
    w = cur["world"]
    # 1. drop interferers one at a time
    i = len(w["interferers"]) - 1
    while i >= 0:
        cand = copy.deepcopy(cur)
        del cand["world"]["interferers"][i]
        if still(cand):
            cur = cand
        i -= 1
    # 2. switch off whole dimensions
    for key, val in (("task_failure", None), ("native", None), ("numba_threads", 1), ("fine", 0.0), ("caches", "keep"), ("dask", False), ("global_seed", 2024), ("urandom_seed", 1)):
        if cur["world"].get(key) != val:
            cand = copy.deepcopy(cur)
            cand["world"][key] = val
            if still(cand):
                cur = cand
    # 3. simplify the schedule: default rule, then a trace of the recorded deviations with as few as possible
    if cur["world"].get("dask"):
        cand = copy.deepcopy(cur)
        cand["world"]["schedule"] = {"kind": "default"}
        if still(cand):
            cur = cand
        for pool in (1, 2):
            if cur["world"].get("pool", 1) > pool:
                cand = copy.deepcopy(cur)
                cand["world"]["pool"] = pool
                if still(cand):
                    cur = cand
                    break
    # 3b. replay the schedule as an explicit trace of its recorded deviations and drop them one at a time
    if cur["world"].get("dask") and cur["world"]["schedule"].get("kind") in ("walk", "pct"):
        try:
            _o, st, _l = run_world(cur["subject"], cur["world"])
            devs = [list(d) for d in st["deviations"]]
        except Exception:  # noqa: BLE001
            devs = None
        if devs is not None and len(devs) <= 60:
            cand = copy.deepcopy(cur)
            cand["world"]["schedule"] = {"kind": "trace", "deviations": devs}
            if still(cand):
                cur = cand
                i = len(devs) - 1
                while i >= 0 and runs[0] < max_runs:
                    cand = copy.deepcopy(cur)
                    del cand["world"]["schedule"]["deviations"][i]
                    if still(cand):
                        cur = cand
                    i -= 1
    # 4. fewer shots
    for s in (1, 2, 4):
        if cur["subject"]["shots"] > s:
            cand = copy.deepcopy(cur)
            cand["subject"]["shots"] = s
            if still(cand):
                cur = cand
                break
    final = best[0] if runs[0] > 0 and best[0] is not rec else judge_world(cur)
    if final["status"] != "violation":
        final = rec
        cur = sc
    final["sig"] = final_signature(cur, final)
    return cur, final
