"""One worker process: runs scenario families idx = k, k+n, k+2n, ... of one engine.

Usage: python -m dst.worker <engine> <seed> <k> <n> <count> <budget_s> <out.jsonl> [tier]

Streams one JSON line per judged run.  Exceptions in harness code are reported as
status "harness_error" (never as a verdict).  A watchdog dumps tracebacks and kills
the process if a single family exceeds its wall allowance, so a hang can never be
mistaken for a pass (the driver sees the missing "done" line).
"""

import faulthandler
import importlib
import json
import os
import sys
import time
import traceback


def main():
    engine_name, seed, k, n, count, budget, out = sys.argv[1:8]
    tier = sys.argv[8] if len(sys.argv) > 8 else "quick"
    seed, k, n, count, budget = int(seed), int(k), int(n), int(count), float(budget)
    from . import common

    common.quiet_env()
    common.use_repo_tree()
    import warnings

    warnings.simplefilter("ignore")
    engine = importlib.import_module("dst." + engine_name)
    t0 = time.time()
    done = 0
    with open(out, "w") as f:

        def emit(rec):
            f.write(json.dumps(rec, default=common._jdefault, sort_keys=True) + "\n")
            f.flush()

        try:
            engine.setup(tier)
        except Exception:  # noqa: BLE001
            emit({"status": "harness_error", "idx": -1, "detail": traceback.format_exc()[-2000:]})
            emit({"status": "done", "families": 0, "wall": time.time() - t0, "complete": False})
            return 3
        idx = k
        complete = True
        while idx < count:
            if time.time() - t0 > budget:
                complete = False
                break
            faulthandler.dump_traceback_later(engine.FAMILY_WALL_S, exit=True)
            try:
                for rec in engine.run_index(seed, idx, tier):
                    rec.setdefault("idx", idx)
                    emit(rec)
            except Exception:  # noqa: BLE001
                emit({"status": "harness_error", "idx": idx, "detail": traceback.format_exc()[-3000:]})
            finally:
                faulthandler.cancel_dump_traceback_later()
            done += 1
            idx += n
        emit({"status": "done", "families": done, "wall": time.time() - t0, "complete": complete})
    return 0


if __name__ == "__main__":
    sys.exit(main())
