"""Shared plumbing: seed derivation, event log + digest, paths, JSON helpers.

Nothing in here draws from a PRNG except through `Rng` objects derived from the
run's single integer, and nothing in here reads a clock on a path that feeds
the event log.
"""

import hashlib
import json
import os
import random as _pyrandom
import sys

VERIF = os.path.dirname(os.path.dirname(os.path.abspath(__file__)))
REPO = os.environ.get("VERIF_REPO", "/repo")
OUT = os.path.join(VERIF, "out")
EVIDENCE = os.path.join(VERIF, "evidence")
BUILD = os.path.join(VERIF, "build")
CACHE = os.path.join(VERIF, ".cache")


def derive(seed, *labels):
    """One integer decides everything: sub-seeds are SHA-256 of (seed, labels)."""
    h = hashlib.sha256(repr((int(seed),) + tuple(str(x) for x in labels)).encode())
    return int.from_bytes(h.digest()[:8], "big")


class Rng(_pyrandom.Random):
    """A private Mersenne twister; never the process-global one."""

    # bound to the genuine methods at import time so that the RNG seam (which patches
    # random.Random.choices / uniform while a scenario runs) never sees harness draws
    choices = _pyrandom.Random.choices
    uniform = _pyrandom.Random.uniform

    def __init__(self, seed, *labels):
        super().__init__(derive(seed, *labels))

    def pick(self, seq):
        return seq[self.randrange(len(seq))]

    def chance(self, p):
        return self.random() < p

    def weighted(self, pairs):
        total = sum(w for _, w in pairs)
        x = self.random() * total
        for v, w in pairs:
            x -= w
            if x < 0:
                return v
        return pairs[-1][0]


def _canon(x):
    """Canonical, hash-stable rendering; floats to 9 significant digits."""
    import numpy as np

    if isinstance(x, float):
        return "%.9g" % x
    if isinstance(x, complex):
        return "(%.9g,%.9g)" % (x.real, x.imag)
    if isinstance(x, (np.floating,)):
        return "%.9g" % float(x)
    if isinstance(x, (np.complexfloating,)):
        return "(%.9g,%.9g)" % (x.real, x.imag)
    if isinstance(x, (np.integer,)):
        return str(int(x))
    if isinstance(x, np.ndarray):
        return "nd%s[%s]" % (x.shape, ",".join(_canon(v) for v in x.ravel().tolist()))
    if isinstance(x, (list, tuple)):
        return "(" + ",".join(_canon(v) for v in x) + ")"
    if isinstance(x, dict):
        return "{" + ",".join(_canon(k) + ":" + _canon(v) for k, v in x.items()) + "}"
    return str(x)


class EventLog:
    """Append-only list of events; its SHA-1 is the run digest."""

    def __init__(self):
        self.events = []

    def add(self, *ev):
        self.events.append(ev)

    def digest(self):
        h = hashlib.sha1()
        for ev in self.events:
            h.update(_canon(ev).encode())
            h.update(b"\n")
        return h.hexdigest()[:16]

    def __len__(self):
        return len(self.events)


class Violation(Exception):
    """A property verdict, as opposed to a harness failure."""

    def __init__(self, prop, oracle, key, detail=""):
        self.prop, self.oracle, self.key, self.detail = prop, oracle, key, detail
        super().__init__(self.signature + (": " + detail if detail else ""))

    @property
    def signature(self):
        return "%s/%s/%s" % (self.prop, self.oracle, self.key)


class Discard(Exception):
    """The scenario is outside the domain of the oracle (counted, not judged)."""


def jdump(obj, path):
    os.makedirs(os.path.dirname(path), exist_ok=True)
    tmp = path + ".tmp%d" % os.getpid()
    with open(tmp, "w") as f:
        json.dump(obj, f, indent=1, sort_keys=True, default=_jdefault)
        f.write("\n")
    os.replace(tmp, path)


def _jdefault(o):
    import numpy as np
    from fractions import Fraction

    if isinstance(o, np.integer):
        return int(o)
    if isinstance(o, np.floating):
        return float(o)
    if isinstance(o, np.ndarray):
        return o.tolist()
    if isinstance(o, complex):
        return {"$": "cplx", "re": o.real, "im": o.imag}
    if isinstance(o, Fraction):
        return "%d/%d" % (o.numerator, o.denominator)
    if isinstance(o, (set, frozenset)):
        return sorted(o)
    return repr(o)


def jload(path):
    with open(path) as f:
        return json.load(f)


def use_repo_tree():
    """Make `import piquasso` resolve to VERIF_REPO when it is not /repo.

    /venv imports piquasso through scikit-build-core's editable finder which maps
    every module to /repo.  For sensitivity self-tests on a scratch copy the
    finder is removed and the copy put first on sys.path; the four prebuilt
    native modules are expected to have been copied next to the sources.
    """
    if os.path.realpath(REPO) == "/repo":
        return
    sys.meta_path[:] = [
        f for f in sys.meta_path if "editable" not in type(f).__module__.lower()
        and "editable" not in type(f).__name__.lower()
        and "ScikitBuildRedirectingFinder" not in type(f).__name__
    ]
    sys.path.insert(0, REPO)
    for k in [k for k in sys.modules if k == "piquasso" or k.startswith("piquasso.")]:
        del sys.modules[k]


def quiet_env():
    """Environment every worker runs with."""
    os.environ.setdefault("NUMBA_CACHE_DIR", os.path.join(CACHE, "numba"))
    os.environ.setdefault("TF_CPP_MIN_LOG_LEVEL", "3")
    os.environ.setdefault("CUDA_VISIBLE_DEVICES", "")
    os.environ.setdefault("JAX_PLATFORMS", "cpu")
