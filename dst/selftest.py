"""Determinism of the harness itself.

  python -m dst.selftest digests <engine> <seed> <tier> <idx> [<idx> ...]
      runs every family twice in this process and prints {idx: [[digest, status, sig] ...]} as JSON
  python -m dst.selftest run [--engines c03,c11,c12,c13] [--n 12] [--seed S]
      for each engine: the same families in two fresh interpreters with different
      PYTHONHASHSEED (each running them twice), different thread settings; all four
      digest lists per family must be identical.  Exit 0 = deterministic, 2 = mismatch.

A two-run diff would miss a one-in-eight divergence four times out of five, hence
several families, twice per process, two processes.
"""

import importlib
import json
import os
import subprocess
import sys

from . import common


def digests(engine_name, seed, tier, idxs):
    common.quiet_env()
    common.use_repo_tree()
    import warnings

    warnings.simplefilter("ignore")
    engine = importlib.import_module("dst." + engine_name)
    engine.setup(tier)
    out = {}
    for idx in idxs:
        runs = []
        for _ in range(2):
            recs = engine.run_index(seed, idx, tier)
            runs.append([[r.get("digest"), r.get("status"), r.get("sig")] for r in recs])
        out[str(idx)] = runs
    return out


def compare(engine_name, seed, tier, idxs, envs=None):
    """-> (families, comparisons, mismatches list)"""
    envs = envs or [{"PYTHONHASHSEED": "0"}, {"PYTHONHASHSEED": "424242", "OMP_THREAD_LIMIT": "2"}]
    engine = importlib.import_module("dst." + engine_name)
    results = []
    for extra in envs:
        env = dict(os.environ)
        env.update({"OMP_WAIT_POLICY": "PASSIVE", "GOMP_SPINCOUNT": "0", "OPENBLAS_NUM_THREADS": "1", "OMP_NUM_THREADS": "1"})
        env.update(getattr(engine, "ENV", {"NUMBA_NUM_THREADS": "1"}))
        env.update(extra)
        env["PYTHONPATH"] = common.VERIF + os.pathsep + env.get("PYTHONPATH", "")
        cmd = [sys.executable, "-m", "dst.selftest", "digests", engine_name, str(seed), tier] + [str(i) for i in idxs]
        p = subprocess.run(cmd, cwd=common.VERIF, env=env, capture_output=True, text=True, timeout=1500)
        line = [ln for ln in p.stdout.splitlines() if ln.startswith("{")]
        if p.returncode != 0 or not line:
            return len(idxs), 0, [{"idx": None, "why": "selftest subprocess failed: " + (p.stderr or p.stdout)[-400:]}]
        results.append(json.loads(line[-1]))
    mismatches = []
    comparisons = 0
    for idx in idxs:
        lists = []
        for res in results:
            lists.extend(res[str(idx)])
        comparisons += len(lists) - 1
        for other in lists[1:]:
            if other != lists[0]:
                mismatches.append({"idx": idx, "a": lists[0][:3], "b": other[:3]})
                break
    return len(idxs), comparisons, mismatches


def main():
    if sys.argv[1] == "digests":
        engine_name, seed, tier = sys.argv[2], int(sys.argv[3]), sys.argv[4]
        print(json.dumps(digests(engine_name, seed, tier, [int(x) for x in sys.argv[5:]])))
        return 0
    import argparse

    ap = argparse.ArgumentParser()
    ap.add_argument("cmd")
    ap.add_argument("--engines", default="c03,c11,c12,c13")
    ap.add_argument("--n", type=int, default=12)
    ap.add_argument("--seed", type=int, default=int(os.environ.get("VERIF_SEED", "20260923")))
    a = ap.parse_args()
    bad = 0
    report = {}
    for e in a.engines.split(","):
        idxs = [(a.seed * 7 + 13 * k) % 5000 for k in range(a.n)]
        fam, comps, mism = compare(e, a.seed, "quick", idxs)
        report[e] = {"families": fam, "comparisons": comps, "mismatches": mism}
        print("%s: %d families, %d digest-list comparisons, %d mismatches" % (e, fam, comps, len(mism)))
        for m in mism[:3]:
            print("   ", json.dumps(m)[:400])
        bad += len(mism)
    common.jdump(report, os.path.join(common.OUT, "selftest.json"))
    return 2 if bad else 0


if __name__ == "__main__":
    sys.exit(main())
