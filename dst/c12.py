"""C12 - execution never modifies what the caller passed in, even on failure.

Engine `crashpoints`: seed-generated histories of operations on one set of caller
objects (Program, instructions, Config, initial_state, arrays), with an exception
injected at every call that leaves the API layer (callee-failure fault model),
judged by snapshot equality after every operation and by re-execution equalling
execution of pristine copies.
"""

import copy

import numpy as np

from . import gen, spec
from .common import Rng, EventLog, Violation, Discard
from . import instrument as ins

PROPERTY = "C12"
LEVEL = "fault_enumeration"
FAMILY_WALL_S = 900
RULE = (
    "family = one seed-generated (simulator, program, shots, initial_state?, operation history) ; evaluations = histories run "
    "(one fault-free history per family, plus one history per enumerated depth-1 call site of its faulted execute x rotating exception kind, "
    "plus sampled step-exit and deep sites, plus kernel-argument probes); non-trivial = the history contained an injected fault that fired, "
    "an adaptive construct (unresolved parameter / condition), an initial_state or a kernel call; distinct = distinct event-log digests "
    "(operation list, site keys, exception kinds, step events, samples)"
)
REAL = [
    "piquasso Python sources from the working tree (api/, instructions/, all six simulators, NumPy connector)",
    "shipped native modules (permanent, pfaffian, torontonian) and numba kernels",
    "numpy Generator / random module (record mode)",
]
STUBBED = ["callee failure is simulated by raising at the callee's entry (sys.settrace) or after its return (step wrapper); nothing else is stubbed"]
ASSUMPTIONS = [
    "fault model: a callee raises (on entry, or after doing its work for simulation steps); asynchronous exceptions between two bytecodes of the API layer itself are out of scope",
    "Config.rng advancing is the documented sharing and is not compared; identity of rng is",
    "TensorFlow/JAX connectors not exercised",
]

KINDS = ("InvalidParameter", "ValueError", "MemoryError", "KeyboardInterrupt")


def plan(tier):
    if tier == "thorough":
        return {"families": 6000, "budget_s": 2400, "grace_s": 600}
    return {"families": 320, "budget_s": 150, "grace_s": 240}


def setup(tier):
    import piquasso  # noqa: F401


# --------------------------------------------------------------------- generation


def supports_shots_none(subject):
    cls = spec.simulator_class(subject["sim"])
    import piquasso as pq

    allowed = tuple(c.__name__ for c in cls._measurement_classes_allowed_with_shots_none)
    for i in subject["program"]:
        c = getattr(pq, i["type"], None)
        if c is not None and issubclass(c, pq.Measurement) and i["type"] not in allowed:
            return False
    return True


def gen_family(seed, idx):
    rng = Rng(seed, "c12", idx)
    sim = rng.weighted([("PureFockSimulator", 5), ("PassiveSimulator", 4), ("GaussianSimulator", 4), ("FermionicPureFockSimulator", 3), ("FockSimulator", 2), ("FermionicGaussianSimulator", 2)])
    subject = gen.gen_subject(rng.randrange(2**62), sim, shots=rng.randrange(1, 9))
    if sim == "PureFockSimulator" and subject["config"]["cutoff"] < 3:
        subject["config"]["cutoff"] = 3
    gen.finalise(subject)
    if rng.chance(0.25) and supports_shots_none(subject):
        subject["shots"] = None
    init_state = rng.weighted([(False, 62), (True, 26), ("blank", 12)])
    if sim == "PureFockSimulator" and rng.chance(0.12):
        # batch programs: the sub-programs are caller-owned objects held as a parameter and executed by nested
        # `execute` calls, so every crash point of a nested execution is a crash point of the outer one
        subject = gen.gen_batch(Rng(seed, "c12-batch", idx))
        init_state = False
    ops = []
    for _ in range(rng.randrange(0, 3)):
        ops.append({"op": rng.pick(["validate", "copy", "as_code", "repr", "eq", "nest", "blackbird", "execute"])})
    ops.append({"op": "execute", "fault": "ENUM"})
    for _ in range(rng.randrange(0, 3)):
        ops.append({"op": rng.pick(["validate", "copy", "as_code", "repr", "nest", "execute", "kernel"])})
    for o in ops:
        if o["op"] == "kernel":
            o.update(gen_kernel_probe(rng))
    flavour = rng.pick(["C", "C", "F", "strided", "readonly", "single"])
    if flavour == "single" or rng.chance(0.06):
        subject["config"]["dtype"] = "float32"
    return {"check": "c12", "subject": subject, "init_state": init_state, "ops": ops, "array_flavour": flavour}


KERNELS = ("permanent", "permanent_laplace", "hafnian", "loop_hafnian", "loop_hafnian_batch", "pfaffian", "polar", "svd", "schur", "logm", "real_logm", "expm", "powm", "sqrtm", "block", "block_diag", "transpose", "embed_in_identity", "calculate_interferometer_on_fock_space", "torontonian")


def gen_kernel_probe(rng):
    return {"name": rng.pick(KERNELS), "n": rng.randrange(1, 4) * 2, "kseed": rng.randrange(10**6), "order": rng.pick(["C", "C", "F", "strided", "readonly"]), "dtype": rng.pick(["float64", "complex128", "float32", "complex64"])}


# --------------------------------------------------------------------- world


class World:
    """Caller-owned objects of one history, their pristine twins, and snapshots."""

    def __init__(self, sc):
        import piquasso as pq

        self.sc = sc
        subj = sc["subject"]
        self.subj = subj
        self.simcls = spec.simulator_class(subj["sim"])
        prog_spec = [self._flavour(i, sc.get("array_flavour", "C")) for i in subj["program"]]
        self.initial_state = None
        self.initial_state0 = None
        if sc.get("init_state") == "blank":
            # the user passes the simulator's own blank initial state and keeps the preparations in the program
            self.initial_state = self._make_state([])
            self.initial_state0 = self._make_state([])
        elif sc.get("init_state"):
            n_prep = 0
            for i in prog_spec:
                if issubclass(getattr(pq, i["type"]), pq.Preparation):
                    n_prep += 1
                else:
                    break
            prep, rest = prog_spec[:n_prep], prog_spec[n_prep:]
            self.initial_state = self._make_state(prep)
            self.initial_state0 = self._make_state(prep)
            prog_spec = rest
        self.prog_spec = prog_spec
        self.program = spec.build_program(prog_spec)
        self.program0 = spec.build_program(prog_spec)
        self.config = spec.build_config(subj["config"])
        self.simulator = self.simcls(d=subj["d"], config=self.config)
        self.arrays = []
        self.before = self.snapshot()

    @staticmethod
    def _flavour(i, order):
        if order == "C":
            return i
        i = copy.deepcopy(i)
        for k, v in i.get("params", {}).items():
            kinds = ("haar", "lossy", "stochastic", "gram", "detcov", "adj") if order != "single" else ("haar", "lossy", "stochastic", "adj")
            # (a detection covariance saturating the uncertainty bound, or a Gram matrix, does not survive rounding to single precision)
            if isinstance(v, dict) and v.get("$") in kinds:
                i["params"][k] = {"$": "nd", "data": {"$$": v}, "order": order}
        return i

    def _make_state(self, prep):
        subj = self.subj
        s = self.simcls(d=subj["d"], config=spec.build_config(subj["config"]))
        if not prep:
            return s.create_initial_state()
        return s.execute(spec.build_program(prep), shots=1).state

    def snapshot(self):
        from piquasso.core import _context

        return {
            "program": ins.snap_program(self.program),
            "config": ins.snap_config(self.config),
            "initial_state": ins.snap_state(self.initial_state),
            "program_stack": len(_context.program_stack),
            "eq": self._eq_pristine(),
        }

    def _eq_pristine(self):
        out = []
        for a, b in zip(self.program.instructions, self.program0.instructions):
            try:
                out.append(bool(a.modes == b.modes and list(a.params) == list(b.params) and all(_same(a.params[k], b.params[k]) for k in a.params)))
            except Exception:  # noqa: BLE001
                out.append("raises")
        return out

    def compare(self, where):
        after = self.snapshot()
        b = self.before
        d = ins.diff_program(b["program"], after["program"])
        if d:
            raise Violation("C12", "snapshot", d[0][0], "%s: %s" % (where, "; ".join(x[1] for x in d[:4])))
        if b["config"] != after["config"]:
            diff = [(x[0], x[1], y[1]) for x, y in zip(b["config"], after["config"]) if x != y]
            raise Violation("C12", "snapshot", "config." + diff[0][0], "%s: %s" % (where, diff))
        if b["initial_state"] != after["initial_state"]:
            names = [x[0] for x, y in zip(b["initial_state"], after["initial_state"]) if x != y]
            raise Violation("C12", "snapshot", "initial_state." + (names[0] if names else "?"), "%s: fields %s" % (where, names))
        if b["program_stack"] != after["program_stack"]:
            raise Violation("C12", "snapshot", "program_stack", where)
        if b["eq"] != after["eq"]:
            raise Violation("C12", "snapshot", "instruction.__eq__", "%s: equality with pristine twin %s -> %s" % (where, b["eq"], after["eq"]))


def _scribble(program):
    """Overwrite everything reachable from a *copy* of a program (instruction list, modes, parameter
    containers and arrays in place, conditions).  If the copy shares mutable state with the original,
    the original's snapshot changes."""
    for ins_ in list(program.instructions):
        try:
            ins_._modes = tuple(reversed(ins_.modes)) + (99,)
        except Exception:  # noqa: BLE001
            pass
        for k in list(ins_.params):
            v = ins_.params[k]
            if isinstance(v, np.ndarray):
                if v.flags.writeable:
                    v[...] = 0
            elif isinstance(v, list):
                v.clear()
            elif isinstance(v, dict):
                v.clear()
            ins_.params[k] = None
        ins_.params["scribbled"] = True
        ins_._condition = None
        if hasattr(ins_, "_unresolved_params") and isinstance(ins_._unresolved_params, dict):
            ins_._unresolved_params.clear()
        if hasattr(ins_, "_original_unresolved_params") and isinstance(ins_._original_unresolved_params, dict):
            ins_._original_unresolved_params.clear()
    program.instructions.clear()


def _get_generators(state):
    """Positions of the generators a state carries with its Config (numpy Generator and, since the
    repair of the first C11 defect, a random.Random); they advance when the state is executed on."""
    cfg = state._config
    r = getattr(cfg, "random", None)
    return (cfg.rng.bit_generator.state, r.getstate() if r is not None else None)


def _set_generators(state, saved):
    cfg = state._config
    cfg.rng.bit_generator.state = saved[0]
    if saved[1] is not None and getattr(cfg, "random", None) is not None:
        cfg.random.setstate(saved[1])


def _same(a, b):
    if isinstance(a, np.ndarray) or isinstance(b, np.ndarray):
        return isinstance(a, np.ndarray) and isinstance(b, np.ndarray) and a.shape == b.shape and a.dtype == b.dtype and a.tobytes() == b.tobytes()
    if callable(a) and callable(b):
        return type(a) is type(b)
    if isinstance(a, (list, tuple)) and isinstance(b, (list, tuple)):
        return type(a) is type(b) and len(a) == len(b) and all(_same(x, y) for x, y in zip(a, b))
    if isinstance(a, dict) and isinstance(b, dict):
        return list(a) == list(b) and all(_same(a[k], b[k]) for k in a)
    if hasattr(a, "instructions") and hasattr(b, "instructions"):  # sub-programs held as parameters
        return len(a.instructions) == len(b.instructions) and all(type(x) is type(y) and x.modes == y.modes and list(x.params) == list(y.params) and all(_same(x.params[k], y.params[k]) for k in x.params) for x, y in zip(a.instructions, b.instructions))
    return type(a) is type(b) and a == b


# --------------------------------------------------------------------- operations


def result_view(res, shots):
    """Comparable summary of a Result."""
    out = {"branches": [(spec.plain(b.outcome), b.frequency if not isinstance(b.frequency, float) else float(b.frequency)) for b in res.branches]}
    if shots is not None:
        out["samples"] = spec.plain(res.samples)
    states = []
    for b in res.branches:
        st = b.state
        if st is None:
            states.append(None)
            continue
        arrs = []
        for k, v in sorted(vars(st).items()):
            if isinstance(v, np.ndarray) and v.dtype.kind in "fc":
                arrs.append((k, v.copy()))
        states.append(arrs)
    out["states"] = states
    return out


def views_equal(a, b):
    if len(a["branches"]) != len(b["branches"]):
        return "number of branches %d != %d" % (len(a["branches"]), len(b["branches"]))
    for (oa, fa), (ob, fb) in zip(a["branches"], b["branches"]):
        if not spec.close(oa, ob):
            return "branch outcome %s != %s" % (oa, ob)
        if isinstance(fa, float) or isinstance(fb, float):
            if abs(float(fa) - float(fb)) > 1e-10:
                return "branch weight %r != %r" % (fa, fb)
        elif fa != fb:
            return "branch frequency %s != %s" % (fa, fb)
    if "samples" in a and not spec.close(a["samples"], b["samples"]):
        return "samples differ"
    for sa, sb in zip(a["states"], b["states"]):
        if (sa is None) != (sb is None):
            return "branch state presence differs"
        if sa is None:
            continue
        for (ka, va), (kb, vb) in zip(sa, sb):
            if ka != kb or va.shape != vb.shape or not np.allclose(va, vb, rtol=1e-9, atol=1e-12, equal_nan=True):
                return "branch state field %s differs" % ka
    return None


class History:
    def __init__(self, sc, log=None):
        self.sc = sc
        self.log = log or EventLog()
        self.stats = {"ops": {}, "fired": 0, "sites_seen": 0}
        self.fired_any = False

    def run(self):
        sc = self.sc
        w = self.world = World(sc)
        # "re-executing the same objects gives the same outcome as the first time": the first time
        self.first = self.fresh_execute(w, w.program, w.initial_state)
        if not isinstance(self.first, Exception):
            w.compare("after the first execution")
        for n, op in enumerate(sc["ops"]):
            name = op["op"]
            self.stats["ops"][name] = self.stats["ops"].get(name, 0) + 1
            self.log.add("op", n, name, op.get("fault") if isinstance(op.get("fault"), (dict, type(None))) else "ENUM")
            outcome = getattr(self, "op_" + name)(w, op)
            self.log.add("op-done", n, outcome)
            w.compare("after op %d (%s%s -> %s)" % (n, name, " with fault %s" % (op["fault"],) if op.get("fault") else "", outcome))
        self.final_equivalence(w)

    # ---- individual operations
    def op_execute(self, w, op, tracer_out=None):
        fault = op.get("fault")
        shots = op.get("shots", w.subj["shots"])
        kinds = ins.kinds()
        mon = None
        simulator = w.simulator
        tracer = None
        if isinstance(fault, dict):
            exc = kinds[fault["kind"]]
            if "site" in fault:
                tracer = ins.SiteTracer(inject=fault["site"], exc=exc)
            elif "deep" in fault:
                tracer = ins.SiteTracer(deep=fault["deep"], exc=exc)
            elif "connector" in fault:
                conn = ins.faulty_connector(inject=tuple(fault["connector"]), exc=exc)
                simulator = w.simcls(d=w.subj["d"], config=w.config, connector=conn)
                self._conn = conn
            elif "exit" in fault:
                mon = ins.Monitor()
                mon.exit_fault = (fault["exit"], exc)
                simulator = ins.instrumented_class(w.simcls, mon)(d=w.subj["d"], config=w.config)
                mon.watch(w.program)
        elif op.get("record"):
            tracer = ins.SiteTracer()

        def go():
            return simulator.execute(w.program, shots=shots, initial_state=w.initial_state)

        try:
            res = tracer.run(go) if tracer is not None else go()
            if shots is not None:
                self.log.add("samples", spec.plain(res.samples))
            outcome = "ok"
        except BaseException as e:  # noqa: BLE001 - includes injected KeyboardInterrupt
            if isinstance(e, (KeyboardInterrupt, SystemExit)) and not ins.is_injected(e):
                raise
            outcome = "raised:" + ("injected" if ins.is_injected(e) else type(e).__name__)
            if not ins.is_injected(e) and isinstance(fault, dict):
                outcome += ":" + str(e)[:80]
        if tracer is not None:
            self.stats["sites_seen"] += len(tracer.sites)
            if tracer.fired:
                self.stats["fired"] += 1
                self.fired_any = True
            self.last_tracer = tracer
        if isinstance(fault, dict) and "connector" in fault and self._conn._dst_state["fired"]:
            self.stats["fired"] += 1
            self.fired_any = True
        if mon is not None and outcome.startswith("raised:injected"):
            self.stats["fired"] += 1
            self.fired_any = True
        return outcome

    def op_validate(self, w, op):
        try:
            w.simulator.validate(w.program)
            return "ok"
        except Exception as e:  # noqa: BLE001
            return "raised:" + type(e).__name__

    def op_copy(self, w, op):
        c = w.program.copy()
        n = len(c.instructions)
        _scribble(c)  # what a user does with a copy: edit it; the original must not notice
        return "ok:%d" % n

    def op_as_code(self, w, op):
        import piquasso as pq

        try:
            pq.as_code(w.program, w.simulator, shots=w.subj["shots"] or 1)
            return "ok"
        except Exception as e:  # noqa: BLE001 (conditioned instructions cannot be exported)
            return "raised:" + type(e).__name__

    def op_repr(self, w, op):
        repr(w.program)
        repr(w.simulator)
        repr(w.config)
        return "ok"

    def op_eq(self, w, op):
        import piquasso as pq

        _ = w.config == pq.Config()
        try:
            _ = [a == b for a, b in zip(w.program.instructions, w.program0.instructions)]
        except ValueError:  # Instruction.__eq__ on array-valued parameters is ambiguous by construction
            return "raised:ValueError"
        return "ok"

    def op_nest(self, w, op):
        import piquasso as pq

        try:
            with pq.Program() as outer:
                pq.Q() | w.program
            n = len(outer.instructions)
            _scribble(outer)  # the outer program holds copies of the instructions
            return "ok:%d" % n
        except Exception as e:  # noqa: BLE001
            return "raised:" + type(e).__name__

    def op_blackbird(self, w, op):
        try:
            w.program.to_blackbird_code()
            return "ok"
        except Exception as e:  # noqa: BLE001 (not every instruction has a Blackbird name)
            return "raised:" + type(e).__name__

    def op_kernel(self, w, op):
        return kernel_probe(w.simulator._connector, op)

    def fresh_execute(self, w, program, initial_state):
        """Execute on the given caller objects with a fresh simulator built from the user Config's current fields."""
        import piquasso as pq

        subj = w.subj
        fields = {k: getattr(w.config, k) for k in ("dtype", "measurement_cutoff", "hbar", "use_torontonian", "cache_size", "validate", "use_dask", "max_sample_generation_trials")}
        if w.config._cutoff_was_explicit:
            fields["cutoff"] = w.config.cutoff
        fields["seed_sequence"] = w.config._original_seed_sequence
        rng_state = None
        if initial_state is not None:
            # executing on a state advances the generator it carries (documented sharing); rewind it afterwards so
            # that this extra execution is invisible to the history that follows
            rng_state = _get_generators(initial_state)
        try:
            sim = w.simcls(d=subj["d"], config=pq.Config(**fields))
            return result_view(sim.execute(program, shots=subj["shots"], initial_state=initial_state), subj["shots"])
        except Exception as e:  # noqa: BLE001
            return e
        finally:
            if rng_state is not None:
                _set_generators(initial_state, rng_state)

    # ---- re-execution equals execution of pristine copies
    def final_equivalence(self, w):
        import piquasso as pq

        subj = w.subj
        shots = subj["shots"]
        fields = {k: getattr(w.config, k) for k in ("dtype", "measurement_cutoff", "hbar", "use_torontonian", "cache_size", "validate", "use_dask", "max_sample_generation_trials")}
        if w.config._cutoff_was_explicit:
            fields["cutoff"] = w.config.cutoff
        fields["seed_sequence"] = w.config._original_seed_sequence
        if w.initial_state is not None:
            # A state carries the generator of the Config it was created with (Config.copy
            # shares rng by design) and executing on it advances that generator; its
            # position is not part of what is compared, so the pristine twin is aligned.
            _set_generators(w.initial_state0, _get_generators(w.initial_state))
        try:
            ref_sim = w.simcls(d=subj["d"], config=spec.build_config(subj["config"]))
            ref = result_view(ref_sim.execute(w.program0, shots=shots, initial_state=w.initial_state0), shots)
        except Exception as e:  # noqa: BLE001
            self.log.add("reference-raises", type(e).__name__)
            self.stats["reference_raises"] = 1
            return
        try:
            sim = w.simcls(d=subj["d"], config=pq.Config(**fields))
            got = result_view(sim.execute(w.program, shots=shots, initial_state=w.initial_state), shots)
        except Exception as e:  # noqa: BLE001
            raise Violation("C12", "reexecute", "raises", "re-execution of the same objects raised %s: %s (pristine copies execute fine)" % (type(e).__name__, str(e)[:200]))
        why = views_equal(got, ref)
        if why:
            raise Violation("C12", "reexecute", "differs", why)
        w.compare("after final re-execution")
        if not isinstance(self.first, Exception) and w.initial_state is None:
            why = views_equal(got, self.first)
            if why:
                raise Violation("C12", "reexecute", "differs-from-first-time", "re-executing the same objects with a fresh same-seed simulator does not give what the first execution gave: " + why)
        self.log.add("final", got["branches"], got.get("samples"))


# --------------------------------------------------------------------- kernel argument probes


def _rand_array(shape, seed, dtype, order, symmetric=False, antisymmetric=False, unitary=False, posdef=False):
    g = spec._real_default_rng(seed)
    a = g.normal(size=shape)
    if np.dtype(dtype).kind == "c":
        a = a + 1j * g.normal(size=shape)
    if unitary:
        a = spec.haar(shape[0], seed)
        if np.dtype(dtype).kind != "c":
            a = np.real(a)
    if symmetric:
        a = a + a.T
    if antisymmetric:
        a = a - a.T
    if posdef:
        a = a @ a.conj().T + np.eye(shape[0])
    return spec.flavour(a.astype(dtype), order)


def kernel_probe(connector, op):
    """Call one connector matrix function on caller arrays; -> outcome string.  Raises Violation on mutation."""
    name, n, seed, order, dtype = op["name"], op["n"], op["kseed"], op["order"], op["dtype"]
    cdtype = {"float64": "complex128", "float32": "complex64"}.get(dtype, dtype)
    args = None
    fn = getattr(connector, name, None)
    if name == "permanent":
        args = [_rand_array((n, n), seed, cdtype, order), np.ones(n, dtype=np.int64), np.ones(n, dtype=np.int64)]
    elif name == "permanent_laplace":
        from piquasso._math.permanent import permanent_laplace as fn0

        fn = fn0
        args = [_rand_array((n, n), seed, cdtype, order), np.ones(n, dtype=np.int64), np.ones(n, dtype=np.int64)]
    elif name == "hafnian":
        args = [_rand_array((n, n), seed, cdtype, order, symmetric=True), np.ones(n // 2 if False else n, dtype=np.int64)]
    elif name == "loop_hafnian":
        args = [_rand_array((n, n), seed, cdtype, order, symmetric=True), _rand_array((n,), seed + 1, cdtype, "C"), np.ones(n, dtype=np.int64)]
    elif name == "loop_hafnian_batch":
        half = n // 2
        red = np.ones(half, dtype=np.int64)
        red[-1] = 0
        args = [_rand_array((n, n), seed, cdtype, order, symmetric=True), _rand_array((n,), seed + 1, cdtype, "C"), red, 3]
    elif name == "pfaffian":
        args = [_rand_array((n, n), seed, dtype, order, antisymmetric=True)]
    elif name == "torontonian":
        from piquasso._math.torontonian import torontonian as fn0

        fn = fn0
        m = _rand_array((n, n), seed, "float64", "C", posdef=True)
        m = m / (np.linalg.norm(m, 2) * 1.5)
        args = [spec.flavour(m.astype("float64" if np.dtype(dtype).itemsize >= 8 or np.dtype(dtype).kind == "c" and np.dtype(dtype).itemsize >= 16 else "float32"), order)]
    elif name in ("polar", "svd", "schur", "expm", "sqrtm", "transpose"):
        args = [_rand_array((n, n), seed, dtype, order, posdef=(name == "sqrtm"))]
    elif name == "logm":
        args = [_rand_array((n, n), seed, dtype, order, posdef=True)]
    elif name == "real_logm":
        a = _rand_array((2, 2), seed, "float64", "C")
        sympl = np.array([[np.cosh(0.3), np.sinh(0.3)], [np.sinh(0.3), np.cosh(0.3)]]) + 0 * a
        args = [spec.flavour(sympl, order)]
    elif name == "powm":
        args = [_rand_array((n, n), seed, dtype, order), 3]
    elif name == "block":
        a = _rand_array((n, n), seed, dtype, order)
        args = [[[a, a], [a, a]]]
    elif name == "block_diag":
        args = [_rand_array((n, n), seed, dtype, order), _rand_array((n, n), seed + 1, dtype, order)]
    elif name == "embed_in_identity":
        idx = (np.arange(n)[:, None], np.arange(n)[None, :])
        args = [_rand_array((n, n), seed, cdtype, order), idx, n + 1]
    elif name == "calculate_interferometer_on_fock_space":
        from piquasso._simulators.fock.simulation_steps import calculate_interferometer_helper_indices

        d = max(2, n // 2)
        u = spec.flavour(spec.haar(d, seed).astype(cdtype), order)
        args = [u, calculate_interferometer_helper_indices(d=d, cutoff=4)]
    else:
        raise KeyError(name)
    arrs = []

    def collect(x):
        if isinstance(x, np.ndarray):
            arrs.append(x)
        elif isinstance(x, (list, tuple)):
            for y in x:
                collect(y)

    collect(args)
    before = [ins.snap_value(a) for a in arrs]
    try:
        fn(*args)
        outcome = "ok"
    except Exception as e:  # noqa: BLE001 (read-only / dtype refusals are legitimate)
        outcome = "raised:" + type(e).__name__
    after = [ins.snap_value(a) for a in arrs]
    if before != after:
        raise Violation("C12", "snapshot", "ndarray:" + name, "connector.%s modified its %s %s argument (order=%s)" % (name, dtype, "x".join(map(str, arrs[0].shape)), order))
    return outcome


# --------------------------------------------------------------------- family runner


def judge(sc, want_log=False):
    """Run one history; -> record."""
    h = History(sc)
    rec = {"status": "pass", "counters": {}}
    try:
        h.run()
    except Violation as v:
        rec.update(status="violation", sig=v.signature, detail=v.detail, facts={"sim": sc["subject"]["sim"]})
    except Discard as d:
        rec.update(status="discard", detail=str(d))
    rec["digest"] = h.log.digest()
    rec["fired"] = h.fired_any
    rec["stats"] = h.stats
    rec["_history"] = h
    return rec


def enumerate_sites(sc, op_index):
    """Recording run on fresh objects: depth-1 sites, step count and deep-call counts of one execute."""
    rec_sc = copy.deepcopy(sc)
    rec_sc["ops"] = rec_sc["ops"][: op_index + 1]
    for o in rec_sc["ops"]:
        if o.get("fault") == "ENUM":
            o["fault"] = None
    rec_sc["ops"][op_index]["record"] = True
    h = History(rec_sc)
    w = h.world = World(rec_sc)
    for o in rec_sc["ops"][:op_index]:
        getattr(h, "op_" + o["op"])(w, o)
    # count steps with a monitor on a twin world, sites with the tracer on this one
    h.op_execute(w, rec_sc["ops"][op_index])
    tracer = h.last_tracer
    return tracer.sites, tracer.instr + 1, tracer.deep_count


def features(sc):
    f = set()
    for i in sc["subject"]["program"]:
        for v in i.get("params", {}).values():
            if isinstance(v, dict) and v.get("$") == "expr":
                f.add("string_params")
            if isinstance(v, dict) and v.get("$") == "fn":
                f.add("callable_params")
        if i.get("when"):
            f.add("conditions")
        if i.get("modes") is None:
            f.add("q_all")
    import piquasso as pq

    meas = [k for k, i in enumerate(sc["subject"]["program"]) if issubclass(getattr(pq, i["type"], object), pq.Measurement)]
    if meas and meas[0] < len(sc["subject"]["program"]) - 1:
        f.add("mid_circuit")
    if sc.get("init_state"):
        f.add("initial_state")
    if sc["subject"]["shots"] is None:
        f.add("shots_none")
    if sc["subject"].get("batch"):
        f.add("batch_subprograms")
    return f


def run_index(seed, idx, tier):
    fam = gen_family(seed, idx)
    rng = Rng(seed, "c12-faults", idx)
    feats = features(fam)
    out = []
    op_index = next(i for i, o in enumerate(fam["ops"]) if o.get("fault") == "ENUM")

    def finish(rec, sc, injected):
        h = rec.pop("_history")
        counters = {"histories": 1, "ops_by_kind": h.stats["ops"], "by_sim": {sc["subject"]["sim"]: 1}}
        if injected:
            counters["injections_fired" if rec["fired"] else "injections_not_reached"] = 1
        if h.stats.get("reference_raises"):
            counters["reference_raises"] = 1
        for f in feats:
            counters.setdefault("reach", {})[f] = 1
        rec["counters"] = counters
        rec["nontrivial"] = bool(rec["fired"] or feats & {"string_params", "callable_params", "conditions", "initial_state", "batch_subprograms"})
        rec.pop("stats", None)
        if rec["status"] == "violation":
            rec["scenario"] = shrink(sc, rec["sig"])
            rec["facts"]["stage"] = _stage_of(sc)
        out.append(rec)

    # (0) kernel-argument probes: family idx sweeps kernel idx % len(KERNELS) over every array flavour x dtype
    out.extend(kernel_sweep(seed, idx))
    # (a) fault-free history
    sc0 = copy.deepcopy(fam)
    sc0["ops"][op_index]["fault"] = None
    rec = judge(sc0)
    rec["sample"] = sc0 if idx % 97 == 0 else None
    base_ok = rec["status"] == "pass"
    finish(rec, sc0, False)
    # (b) recording run
    try:
        sites, n_steps, deep_total = enumerate_sites(fam, op_index)
    except Exception as e:  # noqa: BLE001 - the fault-free execute itself raises: natural-fault history only
        out[-1]["counters"]["natural_failures"] = 1
        return out
    out[-1]["counters"]["sites_found"] = len(sites)
    # (c) one history per depth-1 site
    chosen = list(sites)
    if len(chosen) > 64:
        chosen = rng.sample(chosen, 64)
    k0 = rng.randrange(len(KINDS))
    plans = [{"site": list(s), "kind": KINDS[(k0 + j) % len(KINDS)]} for j, s in enumerate(chosen)]
    step_names = {getattr(f, "__name__", "?") for f in spec.simulator_class(fam["subject"]["sim"])._instruction_map.values()}
    n_step_calls = len([s for s in sites if s[1] in step_names])
    for _ in range(min(n_step_calls, 3 if tier == "quick" else 6)):
        plans.append({"exit": rng.randrange(n_step_calls), "kind": rng.pick(KINDS)})
    for _ in range(3 if tier == "quick" else 8):
        if deep_total > 0:
            plans.append({"deep": [rng.randrange(0, n_steps), rng.randrange(1, max(2, deep_total // max(1, n_steps)))], "kind": rng.pick(KINDS)})
    for plan_ in plans:
        sc = copy.deepcopy(fam)
        sc["ops"][op_index]["fault"] = plan_
        rec = judge(sc)
        stage = "site" if "site" in plan_ else ("exit" if "exit" in plan_ else "deep")
        finish(rec, sc, True)
        out[-1]["counters"].setdefault("injections_by_stage_kind", {})["%s:%s" % (stage if stage != "site" else _callee_stage(plan_["site"][1]), plan_["kind"])] = 1
    # (c2) faults inside connector calculation functions (reaches native kernels, which settrace cannot see)
    try:
        conn = ins.faulty_connector()
        w0 = World(copy.deepcopy(sc0))
        w0.simcls(d=w0.subj["d"], config=w0.config, connector=conn).execute(w0.program, shots=w0.subj["shots"], initial_state=w0.initial_state)
        conn_calls = dict(conn._dst_calls)
    except Exception:  # noqa: BLE001
        conn_calls = {}
    out[0]["counters"]["connector_functions_called"] = {k: 1 for k in conn_calls}
    for name, n_calls in sorted(conn_calls.items()):
        for k in sorted({0, n_calls - 1, rng.randrange(n_calls)})[: 2 if tier == "quick" else 3]:
            sc = copy.deepcopy(fam)
            sc["ops"][op_index]["fault"] = {"connector": [name, k], "kind": rng.pick(KINDS)}
            rec = judge(sc)
            finish(rec, sc, True)
            out[-1]["counters"].setdefault("injections_by_stage_kind", {})["connector:%s" % name] = 1
    # (d) a second fault on the same objects (two failed executes in a row), sampled
    if len(sites) >= 2 and rng.chance(0.5):
        sc = copy.deepcopy(fam)
        s1, s2 = rng.sample(sites, 2)
        sc["ops"][op_index]["fault"] = {"site": list(s1), "kind": rng.pick(KINDS)}
        sc["ops"].insert(op_index + 1, {"op": "execute", "fault": {"site": list(s2), "kind": rng.pick(KINDS)}})
        rec = judge(sc)
        finish(rec, sc, True)
        out[-1]["counters"]["double_fault_histories"] = 1
    return out


def kernel_sweep(seed, idx):
    """All array flavours x dtypes x sizes for one connector function; one record per call."""
    import piquasso as pq

    name = KERNELS[idx % len(KERNELS)]
    conn = pq.NumpyConnector()
    recs = []
    log = EventLog()
    counters = {"kernel_probes": 0, "kernel_probe_outcomes": {}}
    viol = None
    for order in ("C", "F", "strided", "readonly"):
        for dtype in ("float64", "complex128", "float32", "complex64"):
            for n in (2, 4, 6):
                op = {"op": "kernel", "name": name, "n": n, "kseed": (seed + idx) % 10**6, "order": order, "dtype": dtype}
                try:
                    outcome = kernel_probe(conn, op)
                except Violation as v:
                    outcome = "violation"
                    if viol is None:
                        viol = (v, op)
                log.add(name, order, dtype, n, outcome)
                counters["kernel_probes"] += 1
                k = "%s:%s" % (name, outcome.split(":")[0])
                counters["kernel_probe_outcomes"][k] = counters["kernel_probe_outcomes"].get(k, 0) + 1
    rec = {"status": "pass", "digest": log.digest(), "nontrivial": True, "counters": counters, "evaluations": counters["kernel_probes"]}
    if viol is not None:
        v, op = viol
        rec.update(status="violation", sig=v.signature, detail=v.detail, facts={"kernel": name, "stage": "kernel"}, scenario={"check": "c12", "kernel_only": op})
    recs.append(rec)
    return recs


def _callee_stage(name):
    if name == "_validate":
        return "validate"
    if name == "__call__":
        return "user-callable"
    if name == "copy":
        return "state_copy"
    if name == "__init__":
        return "init"
    if name == "wrapped":
        return "step_entry"
    return "step_entry"


def _stage_of(sc):
    for o in sc["ops"]:
        f = o.get("fault")
        if isinstance(f, dict):
            if "site" in f:
                return _callee_stage(f["site"][1])
            return "exit" if "exit" in f else ("connector" if "connector" in f else "deep")
    return "fault-free"


# --------------------------------------------------------------------- replay and shrinking


def replay(sc):
    if "kernel_only" in sc:
        import piquasso as pq

        try:
            kernel_probe(pq.NumpyConnector(), sc["kernel_only"])
        except Violation as v:
            return {"status": "violation", "sig": v.signature, "detail": v.detail, "digest": None}
        return {"status": "pass", "digest": None}
    rec = judge(sc)
    rec.pop("_history", None)
    rec.pop("stats", None)
    return rec


def shrink(sc, sig, max_runs=60):
    """Delta-debug the scenario document while the same violation signature persists."""
    runs = [0]

    def still(cand):
        runs[0] += 1
        if runs[0] > max_runs:
            return False
        try:
            r = judge(cand)
        except Exception:  # noqa: BLE001
            return False
        return r["status"] == "violation" and r.get("sig") == sig

    cur = copy.deepcopy(sc)
    # drop operations that are not the faulted execute
    changed = True
    while changed:
        changed = False
        for i in range(len(cur["ops"]) - 1, -1, -1):
            if len(cur["ops"]) <= 1:
                break
            cand = copy.deepcopy(cur)
            del cand["ops"][i]
            if still(cand):
                cur = cand
                changed = True
    # simplify flags
    for key, val in (("init_state", False), ("array_flavour", "C")):
        if cur.get(key) not in (val, None):
            cand = copy.deepcopy(cur)
            cand[key] = val
            if still(cand):
                cur = cand
    # drop instructions (site keys refer to instruction ordinals, so only instructions after the fault, or when fault-free)
    fault = next((o.get("fault") for o in cur["ops"] if isinstance(o.get("fault"), dict)), None)
    prog = cur["subject"]["program"]
    i = len(prog) - 1
    while i >= 1:
        cand = copy.deepcopy(cur)
        del cand["subject"]["program"][i]
        if fault is not None and "site" in fault and i <= fault["site"][0] + (0 if not cur.get("init_state") else 99):
            i -= 1
            continue
        if still(cand):
            cur = cand
        i -= 1
    # lower shots
    if cur["subject"]["shots"] not in (None, 1):
        cand = copy.deepcopy(cur)
        cand["subject"]["shots"] = 1
        if still(cand):
            cur = cand
    # drop conditions / adaptive params
    for j, ins_ in enumerate(cur["subject"]["program"]):
        if ins_.get("when"):
            cand = copy.deepcopy(cur)
            cand["subject"]["program"][j].pop("when")
            if still(cand):
                cur = cand
    return cur
