"""C13 - invalid programs are rejected up front; valid ones are never refused.

Two oracles over the recorded event history:
 (a) refusal ordering - a valid generated program is given exactly one violation from a
     catalogue taken from the property statement, at a seeded position; a Piquasso
     exception must be raised, no simulation step may have *completed* before it, and
     no Result may be returned;
 (b) acceptance on every outcome history - valid programs are executed for cutoffs
     1..6 with the outcome script steering every categorical draw (in particular
     "everything detected early", which drives post-measurement cutoffs to 1 or 2);
     no exception may escape, with shots=N and, where supported, shots=None.
"""

import copy

from . import gen, spec, outcomes
from .common import Rng, Violation

PROPERTY = "C13"
LEVEL = "exploration"
FAMILY_WALL_S = 600
RULE = (
    "family = one seed-generated valid program; evaluations = (a) one execution per applicable single-rule mutation (rule x seeded position) and "
    "(b) executions of the valid program under outcome scripts x cutoffs 1..6 x {shots=N, shots=None}; non-trivial = (a) always (a rule was violated), "
    "(b) a categorical draw was scripted or a mid-circuit measurement is present; distinct = distinct event-log digests"
)
REAL = ["piquasso sources from the working tree (all six simulators, NumPy connector), shipped native kernels, numba kernels"]
STUBBED = ["outcome of categorical / threshold draws chosen by the scenario among positive-weight entries (as C03)"]
ASSUMPTIONS = [
    "a step that raises on entry has evolved nothing; a step that returned has (completed steps are counted by wrappers in a subclass's _instruction_map)",
    "rules enforced when the instruction or the Q register is constructed count as 'up front'",
    "the documented refusals NotImplementedCalculation (feature explicitly not implemented) and 'Too many trials during sample generation' (Config.max_sample_generation_trials) are not counted as refusing a valid program",
    "valid = instructions from the simulator's own map, documented parameter domains, occupation numbers below the cutoff",
]
ENV = {"NUMBA_NUM_THREADS": "1", "OMP_THREAD_LIMIT": "4"}

SIMS = [("PureFockSimulator", 6), ("PassiveSimulator", 5), ("FermionicPureFockSimulator", 3), ("GaussianSimulator", 4), ("FockSimulator", 2), ("FermionicGaussianSimulator", 1)]


def plan(tier):
    if tier == "thorough":
        return {"families": 100000, "budget_s": 2400, "grace_s": 600}
    return {"families": 640, "budget_s": 170, "grace_s": 240}


def setup(tier):
    import piquasso  # noqa: F401


# ------------------------------------------------------------------ (a) rule catalogue

UNMAPPED = {
    "PureFockSimulator": {"type": "ControlledX", "modes": [0, 1], "params": {"s": 0.1}},
    "FockSimulator": {"type": "ControlledX", "modes": [0, 1], "params": {"s": 0.1}},
    "GaussianSimulator": {"type": "Kerr", "modes": [0], "params": {"xi": 0.1}},
    "PassiveSimulator": {"type": "Squeezing", "modes": [0], "params": {"r": 0.1}},
    "FermionicPureFockSimulator": {"type": "Kerr", "modes": [0], "params": {"xi": 0.1}},
    "FermionicGaussianSimulator": {"type": "Kerr", "modes": [0], "params": {"xi": 0.1}},
}
# measurements in the map but not allowed mid-circuit
MID_FORBIDDEN = {
    "PureFockSimulator": {"type": "HomodyneMeasurement", "params": {}},
    "FockSimulator": {"type": "ParticleNumberMeasurement", "params": {}},
    "GaussianSimulator": {"type": "ParticleNumberMeasurement", "params": {}},
    "FermionicGaussianSimulator": {"type": "ParticleNumberMeasurement", "params": {}},
}
PREP = {
    "PureFockSimulator": "Vacuum",
    "FockSimulator": "Vacuum",
    "GaussianSimulator": "Vacuum",
    "PassiveSimulator": "Vacuum",
    "FermionicGaussianSimulator": "Vacuum",
}
ONE_MODE = ("Phaseshifter", "Fourier", "Kerr", "Squeezing", "Displacement", "PositionDisplacement", "MomentumDisplacement", "QuadraticPhase", "CubicPhase", "Loss")
TWO_MODE = ("Beamsplitter", "Beamsplitter5050", "MachZehnder", "CrossKerr", "Squeezing2", "ControlledX", "ControlledZ", "ControlledPhase", "IsingXX")


def _gate_positions(prog):
    return [i for i, ins in enumerate(prog) if ins["type"] in ONE_MODE + TWO_MODE]


def _active_before(subject, pos):
    active = list(range(subject["d"]))
    for ins in subject["program"][:pos]:
        if outcomes.is_measurement(ins["type"]):
            for m in ins["modes"] if ins.get("modes") is not None else list(active):
                active.remove(m)
    return active


def mutations(subject, rng):
    """-> list of (rule name, mutated scenario dict).  Each violates exactly one rule."""
    out = []
    prog = subject["program"]
    sim = subject["sim"]
    d = subject["d"]
    n = len(prog)
    first_gate = next((i for i, ins in enumerate(prog) if not _is_prep(ins["type"])), n)
    with_modes = [i for i, ins in enumerate(prog) if ins.get("modes")]

    def mk(rule, program=None, **kw):
        sub = dict(subject, program=program if program is not None else prog)
        if sub.get("infer_d") and not spec.can_infer_d(sub):
            # the mutation removed the only explicit mention of mode d-1: with an inferred d the mutated program
            # would describe a smaller system (and might be valid there); declare d instead
            sub.pop("infer_d")
        sc = {"check": "c13", "kind": "refusal", "rule": rule, "subject": sub}
        sc.update(kw)
        out.append((rule, sc))

    def edited(i, **fields):
        p = copy.deepcopy(prog)
        p[i].update(fields)
        return p

    def inserted(pos, ins):
        p = copy.deepcopy(prog)
        p.insert(pos, ins)
        return p

    if with_modes:
        i = rng.pick(with_modes)
        m = list(prog[i]["modes"])
        j = rng.randrange(len(m))
        mk("negative-mode", edited(i, modes=m[:j] + [-1] + m[j + 1 :]), position=i)
        if not subject.get("infer_d"):  # without a declared d a larger mode index simply means a larger system
            i = rng.pick(with_modes)
            m = list(prog[i]["modes"])
            j = rng.randrange(len(m))
            mk("out-of-range-mode", edited(i, modes=m[:j] + [d + rng.randrange(0, 3)] + m[j + 1 :]), position=i)
        multi = [i for i in with_modes if len(prog[i]["modes"]) >= 2]
        if multi:
            i = rng.pick(multi)
            m = list(prog[i]["modes"])
            m[1] = m[0]
            mk("repeated-mode", edited(i, modes=m), position=i)
    gates = _gate_positions(prog)
    if gates:
        i = rng.pick(gates)
        want = 1 if prog[i]["type"] in ONE_MODE else 2
        act = _active_before(subject, i)
        wrong = [k for k in (1, 2, 3) if k != want and k <= len(act)]
        if wrong:
            k = rng.pick(wrong)
            mk("arity-on-modes", edited(i, modes=sorted(rng.sample(act, k))), position=i)
        if len(act) != want:
            mk("arity-q-all", edited(i, modes=None), position=i)
    if first_gate < n:
        if sim in PREP:
            late_prep = {"type": PREP[sim], "modes": None, "params": {}}
        else:  # fermionic Fock: its only preparations take occupation numbers
            late_prep = {"type": "NumberState", "modes": None, "params": {"occupation_numbers": [1] + [0] * (d - 1)}}
        pos = rng.randrange(first_gate + 1, n + 1)
        if pos > n - 1 and outcomes.is_measurement(prog[-1]["type"]):
            pos = n - 1
        # a full-width preparation after a mid-circuit measurement would also violate the mode-count rule
        if not any(outcomes.is_measurement(x["type"]) for x in prog[:pos]):
            mk("preparation-after-gate", inserted(pos, late_prep), position=pos)
    # a fixed-arity gate inserted without modes where the number of still-active modes differs from its arity
    # (the arity may well equal the width d of the simulator: the check must count *active* modes)
    if first_gate < n:
        pos = rng.randrange(first_gate, n)
        act = _active_before(subject, pos)
        one = {"PassiveSimulator": "Fourier", "GaussianSimulator": "Fourier", "PureFockSimulator": "Fourier", "FockSimulator": "Fourier", "FermionicPureFockSimulator": "Fourier", "FermionicGaussianSimulator": "Phaseshifter"}[sim]
        two = "Beamsplitter5050" if sim != "FermionicGaussianSimulator" else "Beamsplitter"
        cands = [(t, k) for t, k in ((one, 1), (two, 2)) if len(act) != k and len(act) >= 1]
        if cands:
            t, k = rng.pick(cands)
            params = {"phi": 0.3} if t == "Phaseshifter" else ({"theta": 0.4, "phi": 0.1} if t == "Beamsplitter" else {})
            mk("arity-q-all", inserted(pos, {"type": t, "modes": None, "params": params}), position=pos)
    # a sub-program registered on a register with fewer modes than its instructions address
    two = [i for i in gates if prog[i]["type"] in TWO_MODE and prog[i].get("modes") and not prog[i].get("when") and not any(isinstance(v, dict) and v.get("$") in ("expr", "fn") for v in prog[i]["params"].values())]
    if two:
        i = rng.pick(two)
        inner = dict(copy.deepcopy(prog[i]), modes=[0, 1])
        nested = {"type": "$nested", "register": [prog[i]["modes"][0]], "program": [inner]}
        p = copy.deepcopy(prog)
        p[i] = nested
        mk("arity-nested-register", p, position=i)
    # ... and after a mid-circuit measurement with no gate in between ("preparation after other instructions")
    MID = {"PureFockSimulator": "ParticleNumberMeasurement", "PassiveSimulator": "ParticleNumberMeasurement", "FermionicPureFockSimulator": "ParticleNumberMeasurement", "GaussianSimulator": "HomodyneMeasurement"}
    if sim in MID and d >= 2 and first_gate >= 1:
        preps = copy.deepcopy(prog[:first_gate])
        k = rng.randrange(1, d)
        measured = sorted(rng.sample(range(d), k))
        if sim in PREP:
            late = {"type": PREP[sim], "modes": None, "params": {}}
        else:
            late = {"type": "NumberState", "modes": None, "params": {"occupation_numbers": [0] * (d - k)}}
        tail_type = "ParticleNumberMeasurement" if sim != "GaussianSimulator" else "HomodyneMeasurement"
        p = preps + [{"type": MID[sim], "modes": measured, "params": {}}]
        if rng.chance(0.5) and d - k >= 2:
            rest = [m for m in range(d) if m not in measured]
            p.append({"type": MID[sim], "modes": [rest[0]], "params": {}})
        p += [late, {"type": tail_type, "modes": None, "params": {}}]
        mk("preparation-after-measurement", p, position=len(p) - 2)
    if first_gate < n:
        pos = rng.randrange(first_gate, n)
        ins = copy.deepcopy(UNMAPPED[sim])
        act = _active_before(subject, pos)
        if len(act) >= len(ins["modes"]):
            ins["modes"] = sorted(rng.sample(act, len(ins["modes"])))
            mk("unmapped-instruction", inserted(pos, ins), position=pos)
    if sim in MID_FORBIDDEN and first_gate < n:
        pos = rng.randrange(first_gate, n)
        act = _active_before(subject, pos)
        if len(act) >= 2 or (len(act) >= 1 and sim in ("GaussianSimulator",)):
            ins = copy.deepcopy(MID_FORBIDDEN[sim])
            ins["modes"] = [rng.pick(act)]
            rest = copy.deepcopy(prog)
            # later instructions must not address the measured mode (that would be a second violation)
            ok = all(ins["modes"][0] not in (x["modes"] if x.get("modes") is not None else []) for x in rest[pos:]) and all(x.get("modes") is not None for x in rest[pos:])
            if ok:
                rest.insert(pos, ins)
                mk("forbidden-mid-circuit-measurement", rest, position=pos)
    for bad in (0, -1, 2.5, "3"):
        mk("shots-" + str(bad), shots_override=bad)
    if not _supports_none(subject):
        mk("shots-none-unsupported", shots_override=None)
    import piquasso as pq

    if pq.JaxConnector not in spec.simulator_class(sim)._supported_connector_classes():
        mk("unsupported-connector", connector="unsupported")
    mk("initial-state-wrong-class", initial_state="wrong-class")
    mk("initial-state-wrong-width", initial_state="wrong-width")
    # documented parameter rules
    for rule, ins, where in parameter_rules(subject, rng):
        if where == "prep":
            p = copy.deepcopy(prog)
            p.insert(first_gate, ins)
            mk("param:" + rule, p, position=first_gate)
        elif first_gate < n:
            pos = rng.randrange(first_gate, n)
            act = _active_before(subject, pos)
            k = len(ins["modes"]) if ins.get("modes") is not None else 0
            if k and len(act) < k:
                continue
            if k:
                ins = dict(ins, modes=sorted(act)[:k])
            last_is_meas = outcomes.is_measurement(prog[-1]["type"])
            if where == "measurement":
                if not last_is_meas:
                    continue
                p = copy.deepcopy(prog)
                tail = p[-1]
                ins = dict(ins, modes=tail.get("modes"))
                p[-1] = ins
                mk("param:" + rule, p, position=n - 1)
            else:
                mk("param:" + rule, inserted(pos, ins), position=pos)
    return out


def _is_prep(type_name):
    import piquasso as pq

    c = getattr(pq, type_name, None)
    return c is not None and issubclass(c, pq.Preparation)


def _supports_none(subject):
    from .c12 import supports_shots_none

    return supports_shots_none(subject)


def parameter_rules(subject, rng):
    """Documented `Raises:` parameter rules applicable to this simulator: (rule, instruction spec, where)."""
    sim = subject["sim"]
    d = subject["d"]
    out = []
    mapped = {c.__name__ for c in spec.simulator_class(sim)._instruction_map}
    if "GaussianTransform" in mapped:
        out.append(("GaussianTransform-not-symplectic", {"type": "GaussianTransform", "modes": [0], "params": {"passive": {"$": "eye", "n": 1, "scale": 1.3}, "active": {"$": "eye", "n": 1, "scale": 0.2}}}, "gate"))
    if "Graph" in mapped and d >= 2:
        out.append(("Graph-not-symmetric", {"type": "Graph", "modes": None, "params": {"adjacency_matrix": {"$": "nd", "data": [[1.0 if j == i + 1 else 0.0 for j in range(d)] for i in range(d)], "dtype": "float64"}}}, "gate-all"))
    if "DeterministicGaussianChannel" in mapped:
        out.append(("DeterministicGaussianChannel-invalid", {"type": "DeterministicGaussianChannel", "modes": [0], "params": {"X": {"$": "eye", "n": 2, "scale": 1.0}, "Y": {"$": "eye", "n": 2, "scale": -1.0}}}, "gate"))
    if "Attenuator" in mapped:
        out.append(("Attenuator-negative-thermal", {"type": "Attenuator", "modes": [0], "params": {"theta": 0.3, "mean_thermal_excitation": -1.0}}, "gate"))
    if "LossyInterferometer" in mapped:
        sv = [0.5] * d
        sv[rng.randrange(d)] = rng.pick([1.5, 1.05, 3.0])
        out.append(("LossyInterferometer-singular-values", {"type": "LossyInterferometer", "modes": None, "params": {"matrix": {"$": "lossy", "n": d, "sv": sv, "seed": rng.randrange(50)}}}, "gate-all"))
    if "Thermal" in mapped:
        vals = [0.1] * d
        vals[rng.randrange(d)] = rng.pick([-0.5, -1e-3, -3.0])
        out.append(("Thermal-negative", {"type": "Thermal", "modes": None, "params": {"mean_photon_numbers": vals}}, "prep"))
    if "NumberState" in mapped:
        occ = [0] * d
        occ[rng.randrange(d)] = -1
        out.append(("NumberState-negative", {"type": "NumberState", "modes": None, "params": {"occupation_numbers": occ}}, "prep"))
    if "DistinguishableNumberState" in mapped:
        bad = rng.pick(["scalar-high", "scalar-negative", "gram-not-psd", "gram-diagonal"] if d >= 2 else ["scalar-high", "scalar-negative"])
        if bad == "scalar-high":
            ov = 1.7
        elif bad == "scalar-negative":
            ov = -0.3
        elif bad == "gram-not-psd":
            ov = {"$": "nd", "data": [[1.0 if i == j else 1.5 for j in range(d)] for i in range(d)], "dtype": "complex128"}
        else:
            ov = {"$": "nd", "data": [[(0.7 if i == 0 else 1.0) if i == j else 0.2 for j in range(d)] for i in range(d)], "dtype": "complex128"}
        out.append(("DistinguishableNumberState-overlap", {"type": "DistinguishableNumberState", "modes": None, "params": {"occupation_numbers": [1] * d, "particle_overlap": ov}}, "prep"))
    if "DensityMatrix" in mapped:
        out.append(("DensityMatrix-negative", {"type": "DensityMatrix", "modes": None, "params": {"ket": [-1] + [0] * (d - 1), "bra": [0] * d}}, "prep"))
    if "GeneraldyneMeasurement" in mapped:
        out.append(("Generaldyne-uncertainty", {"type": "GeneraldyneMeasurement", "modes": [0], "params": {"detection_covariance": {"$": "eye", "n": 2, "scale": 0.3}}}, "measurement"))
    rng.shuffle(out)
    return out[:4]


REFUSAL_OK = "ok"


def judge_refusal(sc):
    import piquasso as pq
    from piquasso.api.exceptions import PiquassoException

    subject = sc["subject"]
    run = outcomes.Run()
    mon = run.monitor
    from . import instrument as ins, rngseam

    stage = "construction"
    exc = None
    result = None
    policy = rngseam.Policy(run.log)
    with rngseam.Seam(policy, log=run.log):
        try:
            prog = spec.build_program(subject["program"], subject.get("build", "list"))
            cls = ins.instrumented_class(spec.simulator_class(subject["sim"]), mon)
            connector = None
            if sc.get("connector") == "unsupported":
                # a built-in connector this simulator does not list as supported
                base = spec.simulator_class(subject["sim"])
                assert pq.JaxConnector not in base._supported_connector_classes()
                connector = pq.JaxConnector()  # (TensorflowConnector would do too, but importing TensorFlow costs seconds per worker)
            sim = cls(d=spec.sim_d(subject), config=spec.build_config(subject.get("config", {})), connector=connector)
            mon.watch(prog)
            kwargs = {}
            init = sc.get("initial_state")
            if init == "wrong-class":
                other = pq.GaussianSimulator if subject["sim"] != "GaussianSimulator" else pq.PureFockSimulator
                kwargs["initial_state"] = other(d=subject["d"]).create_initial_state()
            elif init == "wrong-width":
                kwargs["initial_state"] = spec.simulator_class(subject["sim"])(d=subject["d"] + 1, config=spec.build_config(subject.get("config", {}))).create_initial_state()
            shots = sc["shots_override"] if "shots_override" in sc else subject["shots"]
            stage = "execute"
            result = sim.execute(prog, shots=shots, **kwargs)
        except Exception as e:  # noqa: BLE001
            exc = e
    completed = mon.steps_completed
    rule = sc["rule"]
    facts = {"sim": subject["sim"], "rule": rule, "kind": "refusal"}
    rec = {"digest": run.log.digest(), "facts": facts, "counters": {"refusal_runs": 1, "rules": {rule: 1}, "refused_at": {stage: 1}, "steps_completed_before_refusal": completed, "by_sim": {subject["sim"]: 1}}, "nontrivial": True}
    if exc is None:
        rec.update(status="violation", sig="C13/refusal/accepted-invalid:" + _rule_class(rule), detail="rule %s violated at position %s but execute returned a Result (%d steps ran)" % (rule, sc.get("position"), completed))
        return rec
    if not isinstance(exc, PiquassoException):
        rec.update(status="violation", sig="C13/refusal/wrong-exception:" + _rule_class(rule), detail="rule %s: raised %s (%s), not a Piquasso exception; %d steps had completed" % (rule, type(exc).__name__, str(exc)[:120], completed))
        return rec
    if completed > 0:
        rec.update(status="violation", sig="C13/refusal/step-before-refusal:" + _rule_class(rule), detail="rule %s at position %s: %s raised only after %d simulation steps had completed" % (rule, sc.get("position"), type(exc).__name__, completed))
        return rec
    rec["status"] = "pass"
    return rec


def _rule_class(rule):
    if rule.startswith("shots-") and rule != "shots-none-unsupported":
        return "shots"
    return rule


# ------------------------------------------------------------------ (b) acceptance

DOCUMENTED_REFUSALS = ("NotImplementedCalculation",)


def judge_acceptance(sc):
    subject = sc["subject"]
    run = outcomes.execute_scripted(subject, sc["script"], shots=sc.get("shots", subject["shots"]))
    facts = {"sim": subject["sim"], "kind": "acceptance", "shots_none": sc.get("shots", subject["shots"]) is None}
    c = {"acceptance_runs": 1, "by_sim": {subject["sim"]: 1}, "cutoffs": {str(subject["config"].get("cutoff", "default")): 1}, "draws_scripted": run.seam_stats["scripted"], "strategies": dict(run.policy.by_strategy)}
    rec = {"digest": run.log.digest(), "facts": facts, "counters": c, "nontrivial": run.seam_stats["scripted"] > 0 or len(run.events) > 3}
    e = run.exception
    if e is None:
        rec["status"] = "pass"
        return rec
    name = type(e).__name__
    msg = str(e)
    if name in DOCUMENTED_REFUSALS or "Too many trials during sample generation" in msg:
        rec["status"] = "discard"
        rec["detail"] = "%s: %s" % (name, msg[:100])
        c["documented_refusals"] = {name: 1}
        return rec
    import traceback

    tb = traceback.extract_tb(e.__traceback__)
    last = next((f for f in reversed(tb) if "/piquasso/" in f.filename), tb[-1])
    where = "%s:%s" % (last.filename.split("/piquasso/")[-1], last.name)
    failing = run.events[-1] if run.events and run.events[-1]["sub"] is None else None
    ins_type = failing["type"] if failing else "?"
    facts.update(exception=name, where=where, instruction=ins_type, message=msg[:60])
    rec.update(status="violation", sig="C13/acceptance/refused-valid:%s:%s" % (name, where), detail="valid program refused at instruction %s (%s) with %s: %s  [cutoff=%s shots=%s]" % (failing["idx"] if failing else "?", ins_type, name, msg[:160], subject["config"].get("cutoff"), sc.get("shots", subject["shots"])))
    return rec


def judge(sc):
    if sc["kind"] == "refusal":
        return judge_refusal(sc)
    return judge_acceptance(sc)


# ------------------------------------------------------------------ family


def run_index(seed, idx, tier):
    rng = Rng(seed, "c13", idx)
    sim = rng.weighted(SIMS)
    out = []
    opts = {}
    subject = gen.finalise(gen.gen_subject(rng.randrange(2**62), sim, shots=rng.randrange(1, 9), **opts))
    # the three ways a user registers instructions
    subject["build"] = rng.weighted([("list", 5), ("context-all", 3), ("context-empty", 2)])
    # simulators may be created without d; the number of modes is then inferred from the program
    if spec.can_infer_d(subject) and rng.chance(0.3):
        subject["infer_d"] = True

    def emit(sc):
        rec = judge(sc)
        if rec["status"] == "violation":
            rec["scenario"] = shrink(sc, rec["sig"])
        if idx % 89 == 0 and len([r for r in out if r.get("sample")]) < 1:
            rec["sample"] = sc
        out.append(rec)
        return rec

    # (b) acceptance: cutoffs 1..6 for the Fock-space simulators, scripts incl. everything-detected-early
    cutoffs = [None]
    if sim in ("PureFockSimulator", "FockSimulator"):
        nphot = _photons(subject)
        cutoffs = [c for c in range(1, 7) if c > nphot]
        if tier == "quick":
            cutoffs = sorted(set([cutoffs[0]] + rng.sample(cutoffs, min(2, len(cutoffs)))))
    scripts = [["typical"], ["max_photons"], rng.pick([["rarest"], ["one_each"], ["min_photons"], ["two_outcomes"], list(outcomes.STRATEGIES)])]
    base_ok = True
    for c in cutoffs:
        sub = copy.deepcopy(subject)
        if c is not None:
            sub["config"]["cutoff"] = c
            _resize_detector_matrices(sub, c)
        for mix in scripts:
            rec = emit({"check": "c13", "kind": "acceptance", "subject": sub, "script": {"seed": rng.randrange(2**31), "mix": mix, "per_draw": True}})
            if rec["status"] != "pass" and mix == ["typical"] and c == subject["config"].get("cutoff"):
                base_ok = False
        if _supports_none(sub):
            emit({"check": "c13", "kind": "acceptance", "subject": sub, "script": {"seed": 0, "mix": ["typical"]}, "shots": None})
    # (a) refusal ordering, only on programs whose unmutated form is accepted
    ref = judge_acceptance({"check": "c13", "kind": "acceptance", "subject": subject, "script": {"seed": 1, "mix": ["typical"]}})
    if ref["status"] == "pass":
        for rule, sc in mutations(subject, rng):
            emit(sc)
    return out


def _photons(subject):
    n = 0
    for i in subject["program"]:
        if i["type"] in ("NumberState", "StateVector") and "occupation_numbers" in i["params"]:
            n = max(n, sum(i["params"]["occupation_numbers"]))
        if i["type"] == "DensityMatrix":
            n = max(n, sum(i["params"]["ket"]), sum(i["params"]["bra"]))
        if i["type"] == "Create":
            n += 1
    return n


def _resize_detector_matrices(subject, cutoff):
    for i in subject["program"]:
        m = i.get("params", {}).get("detector_efficiency_matrix")
        if isinstance(m, dict) and m.get("$") == "stochastic":
            m["n"] = max(cutoff, 1)


def replay(sc):
    return judge(sc)


def shrink(sc, sig, max_runs=60):
    from .c03 import _still_wellformed

    runs = [0]

    def still(c):
        runs[0] += 1
        if runs[0] > max_runs:
            return False
        try:
            r = judge(c)
        except Exception:  # noqa: BLE001
            return False
        return r["status"] == "violation" and r.get("sig") == sig

    cur = copy.deepcopy(sc)
    prog = cur["subject"]["program"]
    i = len(prog) - 1
    while i >= 1:
        if cur["kind"] == "refusal" and i == cur.get("position"):
            i -= 1
            continue
        cand = copy.deepcopy(cur)
        del cand["subject"]["program"][i]
        if cand["kind"] == "refusal" and cand.get("position") is not None and i < cand["position"]:
            cand["position"] -= 1
        if (cand["kind"] == "refusal" or _still_wellformed(cand["subject"])) and still(cand):
            cur = cand
        i -= 1
    for j, ins_ in enumerate(cur["subject"]["program"]):
        if ins_.get("when"):
            cand = copy.deepcopy(cur)
            cand["subject"]["program"][j].pop("when")
            if still(cand):
                cur = cand
    if cur["subject"].get("shots") not in (None, 1) and "shots_override" not in cur:
        cand = copy.deepcopy(cur)
        cand["subject"]["shots"] = 1
        if still(cand):
            cur = cand
    if "script" in cur and cur["script"].get("mix") != ["typical"]:
        cand = copy.deepcopy(cur)
        cand["script"]["mix"] = ["typical"]
        if still(cand):
            cur = cand
    return cur
