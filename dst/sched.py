"""Cooperative scheduler: real threads, one baton, every choice from the scenario.

Tasks (simulated caller threads, dask work items, zombies of a failed compute) are
real Python threads parked on events; exactly one runs at a time.  The thread that
calls `Scheduler.run()` is the scheduler: at every yield point of the running task
it picks the next runnable task and waits for it to yield, block or finish.

Choice rule: continue the current task if it is runnable, else the lowest id;
overridden by the schedule document:
  {"kind": "default"}
  {"kind": "walk", "seed": s, "p": 0.3}        switch to a random runnable task with probability p
  {"kind": "pct",  "seed": s, "changes": k}    random priorities, k priority change points
  {"kind": "trace", "deviations": [[step, task], ...]}   explicit deviations from the default rule
Every run records the deviations it actually made, so any schedule can be replayed
(and minimised) as a trace.

dask seam: `dask_get(sched, pool)` is a `get(dsk, keys)` callable for
`dask.config.set(scheduler=...)`.  W workers take tasks in submission order; which
in-flight task advances is the scheduler's choice; results are gathered by key in
submission order; the first task exception is re-raised to the caller either at once
or after the other in-flight tasks finished (scenario's choice), and tasks still in
flight then keep being stepped during the following operations (zombies).
"""

import sys
import threading

from .common import Rng, REPO
import os

_PQ_ROOT = os.path.join(os.path.realpath(REPO), "piquasso") + os.sep


class StepCapExceeded(Exception):
    pass


class Task:
    def __init__(self, sched, tid, fn, name, parent=None, pool=None):
        self.sched = sched
        self.tid = tid
        self.fn = fn
        self.name = name
        self.parent = parent
        self.pool = pool
        self.evt = threading.Event()
        self.done = False
        self.started = False
        self.result = None
        self.exc = None
        self.blocked_on = None  # a Pool the task waits for
        self.thread = threading.Thread(target=self._run, daemon=True, name="dst-task-%d" % tid)
        self.thread._dst_task = self

    def _run(self):
        self.evt.wait()
        sched = self.sched
        if sched.fine > 0:
            sys.settrace(sched._make_tracer(self))
        try:
            self.result = self.fn()
        except BaseException as e:  # noqa: BLE001 - delivered to whoever waits for the task
            self.exc = e
        finally:
            sys.settrace(None)
        self.done = True
        sched.log_event("task-done", self.tid, type(self.exc).__name__ if self.exc else "ok")
        sched._main_evt.set()


class Pool:
    """One `dask.compute` call: children in submission order, W of them in flight."""

    def __init__(self, sched, parent, fns, workers, fail_fast):
        self.sched = sched
        self.parent = parent
        self.workers = workers
        self.fail_fast = fail_fast
        self.children = [sched._new_task(fn, "%s/w%d" % (parent.name if parent else "main", i), parent=parent, pool=self) for i, fn in enumerate(fns)]
        self.next = 0
        self.inflight = []

    def refill(self):
        self.inflight = [t for t in self.inflight if not t.done]
        while self.next < len(self.children) and len(self.inflight) < self.workers:
            self.inflight.append(self.children[self.next])
            self.next += 1

    def finished(self):
        return all(t.done for t in self.children)

    def first_exception(self):
        for t in self.children:
            if t.done and t.exc is not None:
                return t
        return None

    def ready_for_parent(self):
        if self.finished():
            return True
        if self.fail_fast and self.first_exception() is not None:
            return True
        return False


class Scheduler:
    def __init__(self, schedule=None, log=None, fine=0.0, step_cap=200000, fine_seed=0):
        self.schedule = schedule or {"kind": "default"}
        self.log = log
        self.fine = float(fine)
        self.step_cap = step_cap
        self.tasks = []
        self.pools = []
        self.current = None
        self.steps = 0
        self.switches = 0
        self.yields = 0
        self._main_evt = threading.Event()
        self.deviations = []  # (step, tid) actually taken against the default rule
        self.order = []  # task id after every context switch: the interleaving actually executed
        self.access_order = []  # tid sequence at shared-generator draws
        kind = self.schedule.get("kind", "default")
        self._rng = Rng(self.schedule.get("seed", 0), "sched", kind)
        self._fine_rng = Rng(fine_seed, "fine")
        self._trace = {int(s): int(t) for s, t in self.schedule.get("deviations", [])} if kind == "trace" else {}
        self._prio = {}
        self._change_points = set()
        self.line_events = 0
        self.fine_yields_per_task = 400  # line-level pre-emptions per task; bounds the length of a fine-mode world

    # ------------------------------------------------------------------ tasks
    def _new_task(self, fn, name, parent=None, pool=None):
        t = Task(self, len(self.tasks), fn, name, parent, pool)
        self.tasks.append(t)
        if self.schedule.get("kind") == "pct":
            self._prio[t.tid] = self._rng.random()
        self.log_event("task-new", t.tid, name)
        return t

    def spawn(self, fn, name):
        return self._new_task(fn, name)

    def current_task(self):
        return getattr(threading.current_thread(), "_dst_task", None)

    def log_event(self, *ev):
        if self.log is not None:
            self.log.add(*ev)

    # ------------------------------------------------------------------ called from task threads
    def yield_point(self, label):
        t = self.current_task()
        if t is None or t.sched is not self:
            return
        self.yields += 1
        self.log_event("yield", t.tid, label)
        t.evt.clear()
        self._main_evt.set()
        t.evt.wait()

    def compute(self, fns, workers, fail_fast=True):
        """Run `fns` as pool tasks on behalf of the calling task; -> results in submission order."""
        parent = self.current_task()
        if parent is None or parent.sched is not self:
            # not under the scheduler (quiet reference run): plain sequential execution
            return [fn() for fn in fns]
        pool = Pool(self, parent, fns, workers, fail_fast)
        self.pools.append(pool)
        self.log_event("pool", parent.tid, len(fns), workers, fail_fast)
        parent.blocked_on = pool
        # park until the pool lets the parent continue
        parent.evt.clear()
        self._main_evt.set()
        parent.evt.wait()
        parent.blocked_on = None
        bad = pool.first_exception()
        if bad is not None:
            self.log_event("pool-raise", parent.tid, bad.tid, sum(1 for c in pool.children if not c.done))
            raise bad.exc
        return [c.result for c in pool.children]

    # ------------------------------------------------------------------ scheduler loop (main thread)
    def _runnable(self):
        out = []
        for p in self.pools:
            p.refill()
        for t in self.tasks:
            if t.done:
                continue
            if t.pool is not None:
                if t in t.pool.inflight:
                    out.append(t)
                continue
            if t.blocked_on is not None:
                if t.blocked_on.ready_for_parent():
                    out.append(t)
                continue
            out.append(t)
        # tasks blocked inside a pool of their own (nested compute from a pool task)
        for t in self.tasks:
            if not t.done and t.pool is not None and t.blocked_on is not None and t in t.pool.inflight:
                if not t.blocked_on.ready_for_parent() and t in out:
                    out.remove(t)
        return out

    def _choose(self, runnable):
        default = self.current if self.current in runnable else min(runnable, key=lambda t: t.tid)
        kind = self.schedule.get("kind", "default")
        pick = default
        if kind == "trace":
            want = self._trace.get(self.steps)
            if want is not None:
                cand = [t for t in runnable if t.tid == want]
                if cand:
                    pick = cand[0]
        elif kind == "walk":
            if len(runnable) > 1 and self._rng.random() < self.schedule.get("p", 0.3):
                pick = runnable[self._rng.randrange(len(runnable))]
        elif kind == "pct":
            if self._rng.random() < self.schedule.get("changes", 2) / max(50.0, float(self.schedule.get("horizon", 200))):
                victim = runnable[self._rng.randrange(len(runnable))]
                self._prio[victim.tid] = -self._rng.random()
            pick = max(runnable, key=lambda t: (self._prio.get(t.tid, 0.0), -t.tid))
        if pick is not default:
            self.deviations.append((self.steps, pick.tid))
        return pick

    def run(self, until=None):
        """Step tasks until `until()` is true (default: until nothing is runnable)."""
        while True:
            if until is not None and until():
                return
            runnable = self._runnable()
            if not runnable:
                if until is None:
                    return
                raise StepCapExceeded("no runnable task but the awaited condition does not hold (lost wake-up?)")
            if self.steps >= self.step_cap:
                raise StepCapExceeded("step cap %d exceeded" % self.step_cap)
            t = self._choose(runnable)
            if self.current is not None and t is not self.current:
                self.switches += 1
                self.order.append(t.tid)
            self.current = t
            self.steps += 1
            self._main_evt.clear()
            if not t.started:
                t.started = True
                t.thread.start()
            t.evt.set()
            self._main_evt.wait()

    def drain(self):
        """Run every remaining task (zombies included) to completion."""
        self.run()
        for t in self.tasks:
            if t.started:
                t.thread.join(timeout=5)

    # ------------------------------------------------------------------ fine-grained preemption
    def _make_tracer(self, task):
        sched = self

        budget = [sched.fine_yields_per_task]

        def ltrace(frame, event, arg):
            if event == "line":
                sched.line_events += 1
                if budget[0] > 0 and sched._fine_rng.random() < sched.fine:
                    budget[0] -= 1
                    sched.yield_point(("line", frame.f_code.co_name, frame.f_lineno))
            return ltrace

        def gtrace(frame, event, arg):
            if frame.f_code.co_filename.startswith(_PQ_ROOT):
                return ltrace
            return None

        return gtrace


def dask_get(sched, workers, fail_fast=True, log=None):
    """A `get(dsk, keys, **kw)` for dask.config.set(scheduler=...), backed by `sched`."""
    from dask._task_spec import convert_legacy_graph

    def get(dsk, keys, **kw):
        graph = dsk.__dask_graph__() if hasattr(dsk, "__dask_graph__") else dsk
        g = convert_legacy_graph(graph)
        flat = []
        shape = []
        for ks in keys:
            if isinstance(ks, (list, tuple)) and not isinstance(ks, str) and not (isinstance(ks, tuple) and ks and isinstance(ks[0], str) and ks in g):
                shape.append(len(ks))
                flat.extend(ks)
            else:
                shape.append(None)
                flat.append(ks)
        fns = [(lambda k=k: g[k]({})) for k in flat]
        res = sched.compute(fns, workers, fail_fast)
        out = []
        pos = 0
        for n in shape:
            if n is None:
                out.append(res[pos])
                pos += 1
            else:
                out.append(res[pos : pos + n])
                pos += n
        return tuple(out)

    return get
