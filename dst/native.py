"""Native seam: permanent kernels built from the working tree behind a simulator-owned OpenMP runtime.

`load()` compiles /verif/native/sim_omp.cpp with $REPO/src/permanent.cpp and
$REPO/src/permanent_laplace.cpp (content-hashed into /verif/build) and returns a
`Kernels` object.  The pybind11 glue cannot be rebuilt here (no pybind11 headers), so
it is the one stubbed layer: arrays are handed over through ctypes instead.
"""

import ctypes
import hashlib
import os
import subprocess

import numpy as np

from .common import BUILD, REPO, VERIF

SOURCES = ["permanent.cpp", "permanent_laplace.cpp"]
HEADERS = ["matrix.hpp", "n_aryGrayCodeCounter.hpp", "permanent.hpp", "permanent_laplace.hpp", "utils.hpp"]


def _digest():
    h = hashlib.sha1()
    for p in [os.path.join(VERIF, "native", "sim_omp.cpp")] + [os.path.join(REPO, "src", f) for f in SOURCES + HEADERS]:
        with open(p, "rb") as f:
            h.update(f.read())
    return h.hexdigest()[:12]


def build():
    os.makedirs(BUILD, exist_ok=True)
    tag = _digest()
    so = os.path.join(BUILD, "libsimperm-%s.so" % tag)
    if os.path.exists(so):
        return so
    tmp = os.path.join(BUILD, "tmp-%s-%d" % (tag, os.getpid()))
    os.makedirs(tmp, exist_ok=True)
    objs = []
    inc = "-I" + os.path.join(REPO, "src")
    for src in [os.path.join(VERIF, "native", "sim_omp.cpp")] + [os.path.join(REPO, "src", f) for f in SOURCES]:
        o = os.path.join(tmp, os.path.basename(src) + ".o")
        subprocess.run(["g++", "-O2", "-std=c++17", "-fopenmp", "-fPIC", "-c", inc, src, "-o", o], check=True, capture_output=True)
        objs.append(o)
    out = os.path.join(tmp, "lib.so")
    # linked without libgomp: GOMP_parallel & co. are ours; -Bsymbolic binds the kernels' references to them
    subprocess.run(["g++", "-shared", "-Wl,-Bsymbolic", "-o", out] + objs, check=True, capture_output=True)
    os.replace(out, so)
    for o in objs:
        os.remove(o)
    os.rmdir(tmp)
    return so


class Kernels:
    def __init__(self, path):
        self.path = path
        lib = self.lib = ctypes.CDLL(path, mode=ctypes.RTLD_LOCAL)
        dp = ctypes.POINTER(ctypes.c_double)
        fp = ctypes.POINTER(ctypes.c_float)
        ip = ctypes.POINTER(ctypes.c_int)
        lib.verif_set.argtypes = [ctypes.c_uint, ctypes.c_uint, ctypes.c_uint64]
        lib.verif_stats.argtypes = [ip]
        lib.verif_permanent.argtypes = [dp, ctypes.c_int, ctypes.c_int, ip, ip, dp]
        lib.verif_permanent_f.argtypes = [fp, ctypes.c_int, ctypes.c_int, ip, ip, fp]
        lib.verif_laplace.argtypes = [dp, ctypes.c_int, ctypes.c_int, ip, ip, dp, ctypes.c_int]
        lib.verif_laplace_f.argtypes = [fp, ctypes.c_int, ctypes.c_int, ip, ip, fp, ctypes.c_int]
        lib.verif_tiling.argtypes = [ip, ctypes.c_int, ctypes.c_int64]
        self.world = (16, 0, 0)
        self.calls = 0

    def set_world(self, hc, team=0, order_seed=0):
        self.world = (int(hc), int(team), int(order_seed))
        self.lib.verif_set(int(hc), int(team), int(order_seed))

    def stats(self):
        out = (ctypes.c_int * 3)()
        self.lib.verif_stats(out)
        return {"calls": out[0], "last_requested": out[1], "last_team": out[2]}

    @staticmethod
    def _prep(matrix, rows, cols):
        m = np.asarray(matrix)
        single = m.dtype in (np.complex64, np.float32)
        cd = np.complex64 if single else np.complex128
        m = np.ascontiguousarray(m, dtype=cd)
        r = np.ascontiguousarray(rows, dtype=np.int32)
        c = np.ascontiguousarray(cols, dtype=np.int32)
        return m, r, c, single

    def permanent(self, matrix, rows, cols):
        m, r, c, single = self._prep(matrix, rows, cols)
        self.calls += 1
        ip = ctypes.POINTER(ctypes.c_int)
        if single:
            out = np.zeros(2, dtype=np.float32)
            fp = ctypes.POINTER(ctypes.c_float)
            rc = self.lib.verif_permanent_f(m.view(np.float32).ctypes.data_as(fp), m.shape[0], m.shape[1], r.ctypes.data_as(ip), c.ctypes.data_as(ip), out.ctypes.data_as(fp))
            if rc:
                raise RuntimeError("Number of input and output states should be equal")
            return np.complex64(complex(out[0], out[1]))
        out = np.zeros(2, dtype=np.float64)
        dp = ctypes.POINTER(ctypes.c_double)
        rc = self.lib.verif_permanent(m.view(np.float64).ctypes.data_as(dp), m.shape[0], m.shape[1], r.ctypes.data_as(ip), c.ctypes.data_as(ip), out.ctypes.data_as(dp))
        if rc:
            raise RuntimeError("Number of input and output states should be equal")
        return np.complex128(complex(out[0], out[1]))

    def permanent_laplace(self, matrix, rows, cols):
        m, r, c, single = self._prep(matrix, rows, cols)
        self.calls += 1
        ip = ctypes.POINTER(ctypes.c_int)
        n_out = max(1, m.shape[1])
        if single:
            out = np.zeros(2 * n_out, dtype=np.float32)
            fp = ctypes.POINTER(ctypes.c_float)
            k = self.lib.verif_laplace_f(m.view(np.float32).ctypes.data_as(fp), m.shape[0], m.shape[1], r.ctypes.data_as(ip), c.ctypes.data_as(ip), out.ctypes.data_as(fp), n_out)
            if k < 0:
                raise RuntimeError("Number of input and output states should be equal")
            return out[: 2 * k].view(np.complex64).copy()
        out = np.zeros(2 * n_out, dtype=np.float64)
        dp = ctypes.POINTER(ctypes.c_double)
        k = self.lib.verif_laplace(m.view(np.float64).ctypes.data_as(dp), m.shape[0], m.shape[1], r.ctypes.data_as(ip), c.ctypes.data_as(ip), out.ctypes.data_as(dp), n_out)
        if k < 0:
            raise RuntimeError("Number of input and output states should be equal")
        return out[: 2 * k].view(np.complex128).copy()

    def tiling(self, limits, jobs):
        lim = np.ascontiguousarray(limits, dtype=np.int32)
        return self.lib.verif_tiling(lim.ctypes.data_as(ctypes.POINTER(ctypes.c_int)), len(lim), int(jobs))


_KERNELS = None


def load():
    global _KERNELS
    if _KERNELS is None:
        _KERNELS = Kernels(build())
    return _KERNELS


def sim_connector(kernels):
    """NumpyConnector whose permanent kernels are the working-tree ones under the simulated runtime."""
    import piquasso as pq

    class SimNumpyConnector(pq.NumpyConnector):
        def permanent(self, matrix, rows, cols):
            return kernels.permanent(matrix, rows, cols)

        def permanent_laplace(self, matrix, rows, cols):
            return kernels.permanent_laplace(matrix, rows, cols)

    SimNumpyConnector.__name__ = "NumpyConnector"
    return SimNumpyConnector()
