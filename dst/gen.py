"""Seeded generator of *valid* subject documents (see spec.py), one family per simulator.

"Valid" means: instructions from the simulator's own map, modes inside range and
distinct, preparations first, only whitelisted mid-circuit measurements,
parameters inside the documented domains, occupation numbers below the cutoff.
The engines add worlds, faults and outcome scripts on top.
"""

import math

from .common import Rng

ADAPTIVE = ("PureFockSimulator", "PassiveSimulator", "FermionicPureFockSimulator", "GaussianSimulator")
ALL_SIMS = (
    "PureFockSimulator",
    "FockSimulator",
    "GaussianSimulator",
    "PassiveSimulator",
    "FermionicPureFockSimulator",
    "FermionicGaussianSimulator",
)


import os

# VERIF_BOUNDS=deep widens every bound by one (modes, cutoff, photons): slower, for exploratory soaks only
DEEP = 1 if os.environ.get("VERIF_BOUNDS") == "deep" else 0


def _r(x):
    return round(x, 4)


def _angle(rng):
    return _r(rng.uniform(-math.pi, math.pi))


def _small(rng, hi=0.25):
    return _r(rng.uniform(0.02, hi))


class G:
    """One generation context: tracks active modes and measurement outcomes so far."""

    def __init__(self, rng, sim, opts):
        self.rng = rng
        self.sim = sim
        self.opts = opts
        self.prog = []
        self.n_outcomes = 0  # length of the outcome tuple so far
        self.outcome_kinds = []  # "int" or "float" per outcome entry
        self.outcome_max = []  # upper bound of each integer outcome entry

    # -- helpers
    def pick_modes(self, k):
        act = list(self.active)
        self.rng.shuffle(act)
        m = act[:k]
        if not self.rng.chance(0.3):
            m.sort()
        return m

    def pick_consecutive(self, k):
        act = sorted(self.active)
        i = self.rng.randrange(0, len(act) - k + 1)
        return act[i : i + k]

    def maybe_adaptive(self, ins, scalar_param=None, scale=0.2):
        """Attach a condition and/or turn a scalar parameter into an outcome expression."""
        rng = self.rng
        if self.n_outcomes == 0 or not self.opts.get("adaptive", True):
            return ins
        i = rng.randrange(self.n_outcomes)
        isint = self.outcome_kinds[i] == "int"
        if scalar_param and rng.chance(0.45):
            a = _r(rng.uniform(0.05, scale))
            b = _r(rng.uniform(0.0, 0.1))
            if rng.chance(0.5):
                if isint:
                    s = rng.pick(["x[%d] * %s + %s" % (i, a, b), "%s * (x[%d] + 1)" % (a, i), "x[-1] * %s" % a if self.outcome_kinds[-1] == "int" else "x[%d] * %s" % (i, a)])
                else:
                    s = "%s * x[%d] / (1 + x[%d] ** 2)" % (a, i, i)
                ins["params"][scalar_param] = {"$": "expr", "s": s}
            else:
                if isint:
                    ins["params"][scalar_param] = {"$": "fn", "f": {"kind": "lin", "i": i, "a": a, "b": b}}
                else:
                    # continuous outcomes (homodyne with z = 1e-4 returns values of order 1e2..1e4): a bounded map keeps
                    # the parameter inside the range the numerics are meant for
                    ins["params"][scalar_param] = {"$": "fn", "f": {"kind": "bounded", "i": i, "a": a, "b": b}}
        # sometimes a second outcome-dependent parameter on the same instruction (resolution is then a
        # multi-step operation that can fail half-way)
        if scalar_param and isinstance(ins["params"].get(scalar_param), dict) and rng.chance(0.4):
            others = [k for k, v in ins["params"].items() if k != scalar_param and k in ("phi", "ext") and isinstance(v, (int, float)) and not isinstance(v, bool)]
            if others:
                k2 = rng.pick(others)
                j = rng.randrange(self.n_outcomes)
                a2 = _r(rng.uniform(0.05, 0.3))
                if self.outcome_kinds[j] == "int":
                    ins["params"][k2] = {"$": "expr", "s": "%s * x[%d] + %s" % (a2, j, _r(rng.uniform(0.0, 0.2)))} if rng.chance(0.5) else {"$": "fn", "f": {"kind": "lin", "i": j, "a": a2, "b": 0.05}}
                else:
                    ins["params"][k2] = {"$": "fn", "f": {"kind": "bounded", "i": j, "a": a2, "b": 0.05}}
        if rng.chance(0.4):
            if isint:
                c = rng.randrange(0, max(1, self.outcome_max[i]) + 1)
                op = rng.pick(["==", ">", "<=", "!="])
                if rng.chance(0.5):
                    ins["when"] = {"expr": "x[%d] %s %d" % (i, op, c)}
                else:
                    kind = {"==": "eq", ">": "gt", "<=": "le", "!=": "gt"}[op]
                    ins["when"] = {"fn": {"kind": kind, "i": i, "c": c}}
            else:
                if rng.chance(0.5):
                    ins["when"] = {"expr": "x[%d] > 0" % i}
                else:
                    ins["when"] = {"fn": {"kind": "gt", "i": i, "c": 0.0}}
        return ins

    FIXED_ARITY = {"Phaseshifter": 1, "Fourier": 1, "Kerr": 1, "Squeezing": 1, "Displacement": 1, "PositionDisplacement": 1, "MomentumDisplacement": 1, "QuadraticPhase": 1, "CubicPhase": 1, "Loss": 1, "Attenuator": 1, "Beamsplitter": 2, "Beamsplitter5050": 2, "MachZehnder": 2, "CrossKerr": 2, "Squeezing2": 2, "ControlledX": 2, "ControlledZ": 2, "ControlledPhase": 2, "IsingXX": 2}

    def add(self, ins):
        # a fixed-arity gate addressing exactly the still-active modes in increasing order may as well be
        # registered without modes (pq.Q() / pq.Q(all)): valid, and it exercises the arity check against
        # the modes that are *still active*, not against the width of the simulator
        k = self.FIXED_ARITY.get(ins["type"])
        if k is not None and ins.get("modes") is not None and len(self.active) == k and list(ins["modes"]) == sorted(self.active) and self.rng.chance(0.35):
            ins = dict(ins, modes=None)
        self.prog.append(ins)

    def measured(self, modes, kind, maxv):
        for m in modes:
            self.active.remove(m)
        if kind == "post":
            return
        if kind == "heterodyne" or kind == "generaldyne":
            # two real numbers per mode
            for _ in modes:
                self.outcome_kinds += ["float", "float"]
                self.outcome_max += [0, 0]
            self.n_outcomes += 2 * len(modes)
        else:
            for _ in modes:
                self.outcome_kinds.append("float" if kind == "homodyne" else "int")
                self.outcome_max.append(maxv)
            self.n_outcomes += len(modes)


# ---------------------------------------------------------------- passive gates


def passive_gate(g, allow_allmodes=True, kinds=None, consecutive=False):
    rng = g.rng
    if consecutive:
        g = _Consec(g)
    n = len(g.active)
    kinds = kinds or ["Interferometer", "Beamsplitter", "Phaseshifter", "MachZehnder", "Fourier", "Beamsplitter5050"]
    if n < 2:
        kinds = [k for k in kinds if k in ("Phaseshifter", "Fourier", "Interferometer")]
    t = rng.pick(kinds)
    if t == "Interferometer":
        if allow_allmodes and rng.chance(0.3):
            return {"type": t, "modes": None, "params": {"matrix": {"$": "haar", "n": n, "seed": rng.randrange(1000)}}}
        k = rng.randrange(1, n + 1)
        return {"type": t, "modes": g.pick_modes(k), "params": {"matrix": {"$": "haar", "n": k, "seed": rng.randrange(1000)}}}
    if t == "Beamsplitter":
        return g.maybe_adaptive({"type": t, "modes": g.pick_modes(2), "params": {"theta": _angle(rng), "phi": _angle(rng)}}, "theta", 0.8)
    if t == "Phaseshifter":
        return g.maybe_adaptive({"type": t, "modes": g.pick_modes(1), "params": {"phi": _angle(rng)}}, "phi", 0.8)
    if t == "MachZehnder":
        return g.maybe_adaptive({"type": t, "modes": g.pick_modes(2), "params": {"int_": _angle(rng), "ext": _angle(rng)}}, "int_", 0.8)
    if t == "Fourier":
        return g.maybe_adaptive({"type": t, "modes": g.pick_modes(1), "params": {}})
    if t == "Beamsplitter5050":
        return g.maybe_adaptive({"type": t, "modes": g.pick_modes(2), "params": {}})
    raise KeyError(t)


class _Consec:
    """View of a context whose mode picks are runs of adjacent active modes."""

    def __init__(self, g):
        self._g = g

    def __getattr__(self, k):
        return getattr(self._g, k)

    def pick_modes(self, k):
        return self._g.pick_consecutive(k)


def _ensure_mixing(g):
    """A full-width Haar interferometer so that outcome distributions are non-trivial."""
    n = len(g.active)
    g.add({"type": "Interferometer", "modes": None if g.rng.chance(0.5) else sorted(g.active), "params": {"matrix": {"$": "haar", "n": n, "seed": g.rng.randrange(1000)}}})


# ---------------------------------------------------------------- pure Fock


def _detector(rng, n):
    rec = {"$": "stochastic", "n": n, "seed": rng.randrange(100)}
    if rng.chance(0.4):
        rec["dark"] = _r(rng.uniform(0.02, 0.2))  # dark counts: clicks without photons are legal detector behaviour
    return rec


def _occupation(rng, d, total_max, fermionic=False):
    occ = [0] * d
    if fermionic:
        k = rng.randrange(1, d + 1) if d > 1 else rng.randrange(0, 2)
        k = min(k, total_max)
        for m in rng.sample(range(d), k):
            occ[m] = 1
        return occ
    total = rng.randrange(0 if d > 3 else 1, total_max + 1) if total_max >= 1 else 0
    for _ in range(total):
        occ[rng.randrange(d)] += 1
    return occ


def gen_purefock(rng, opts):
    d = opts.get("d") or rng.randrange(1, 5 + DEEP)
    cutoff = opts.get("cutoff") or rng.randrange(2, 6 + DEEP)
    g = G(rng, "PureFockSimulator", opts)
    g.active = list(range(d))
    style = rng.weighted([("number", 5), ("superposition", 3), ("vacuum", 2)])
    nmax = min(cutoff - 1, 3 + DEEP)
    if style == "number" or nmax < 1:
        g.add({"type": "NumberState", "modes": None, "params": {"occupation_numbers": _occupation(rng, d, nmax)}})
    elif style == "superposition":
        k = rng.randrange(2, 4)
        occs = []
        for _ in range(k):
            o = _occupation(rng, d, nmax)
            if o not in occs:
                occs.append(o)
        w = [rng.uniform(0.3, 1.0) for _ in occs]
        norm = math.sqrt(sum(x * x for x in w))
        for o, x in zip(occs, w):
            ph = rng.pick([1.0, -1.0, 1j])
            c = ph * x / norm
            coef = {"$": "cplx", "re": _r(c.real), "im": _r(c.imag)} if isinstance(c, complex) else round(c, 6)
            g.add({"type": "StateVector", "modes": None, "params": {"occupation_numbers": o, "coefficient": coef}})
    else:
        g.add({"type": "Vacuum", "modes": None, "params": {}})
        if rng.chance(0.5) and cutoff >= 2:
            g.add({"type": "Create", "modes": [rng.randrange(d)], "params": {}})
    active_gates = opts.get("active_gates", True) and style != "number" or (opts.get("active_gates", True) and rng.chance(0.3))
    n_meas = rng.randrange(0, 3) if d > 1 else 0
    if not opts.get("mid", True):
        n_meas = 0
    _ensure_mixing(g)
    for seg in range(n_meas + 1):
        for _ in range(rng.randrange(0, 3)):
            g.add(_purefock_gate(g, cutoff, active_gates))
        if seg < n_meas and len(g.active) > 1:
            k = rng.randrange(1, len(g.active))
            modes = g.pick_modes(k)
            if rng.chance(0.8) or not opts.get("postselect", True) or g.n_outcomes:
                g.add({"type": "ParticleNumberMeasurement", "modes": modes, "params": {}})
                g.measured(modes, "pnm", cutoff - 1)
            else:
                g.add({"type": "PostSelectPhotons", "modes": modes, "params": {"photon_counts": {"$": "tuple", "v": [0 for _ in modes], "auto": True}}})
                g.measured(modes, "post", 0)
    term = rng.weighted([("pnm_all", 5), ("pnm_sub", 2), ("none", 1 if opts.get("allow_no_terminal") else 0), ("homodyne", 1 if opts.get("homodyne", True) else 0), ("imperfect", 1 if opts.get("imperfect", True) else 0)])
    if term == "pnm_all":
        g.add({"type": "ParticleNumberMeasurement", "modes": None if rng.chance(0.6) else sorted(g.active), "params": {}})
    elif term == "pnm_sub":
        g.add({"type": "ParticleNumberMeasurement", "modes": g.pick_modes(rng.randrange(1, len(g.active) + 1)), "params": {}})
    elif term == "homodyne":
        g.add({"type": "HomodyneMeasurement", "modes": g.pick_modes(rng.randrange(1, len(g.active) + 1)), "params": {}})
    elif term == "imperfect":
        g.add({"type": "ImperfectParticleNumberMeasurement", "modes": None, "params": {"detector_efficiency_matrix": _detector(rng, cutoff)}})
    return {"sim": "PureFockSimulator", "d": d, "config": {"cutoff": cutoff}, "program": g.prog}


def _purefock_gate(g, cutoff, active_gates):
    rng = g.rng
    n = len(g.active)
    choices = [("passive", 5), ("Kerr", 2)]
    if n >= 2:
        choices.append(("CrossKerr", 1))
    if active_gates:
        choices += [("Squeezing", 2), ("Displacement", 2), ("PositionDisplacement", 1), ("MomentumDisplacement", 1), ("QuadraticPhase", 1), ("CubicPhase", 1)]
        if n >= 2:
            choices.append(("Squeezing2", 1))
    t = rng.weighted(choices)
    if t == "passive":
        return passive_gate(g)
    if t == "Kerr":
        return g.maybe_adaptive({"type": "Kerr", "modes": g.pick_modes(1), "params": {"xi": _angle(rng)}}, "xi", 0.5)
    if t == "CrossKerr":
        return g.maybe_adaptive({"type": "CrossKerr", "modes": g.pick_modes(2), "params": {"xi": _angle(rng)}}, "xi", 0.5)
    if t == "Squeezing":
        return g.maybe_adaptive({"type": "Squeezing", "modes": g.pick_modes(1), "params": {"r": _small(rng), "phi": _angle(rng)}}, "r", 0.1)
    if t == "Displacement":
        return g.maybe_adaptive({"type": "Displacement", "modes": g.pick_modes(1), "params": {"r": _small(rng, 0.4), "phi": _angle(rng)}}, "r", 0.15)
    if t == "PositionDisplacement":
        return g.maybe_adaptive({"type": t, "modes": g.pick_modes(1), "params": {"x": _small(rng, 0.4)}}, "x", 0.15)
    if t == "MomentumDisplacement":
        return g.maybe_adaptive({"type": t, "modes": g.pick_modes(1), "params": {"p": _small(rng, 0.4)}}, "p", 0.15)
    if t == "QuadraticPhase":
        return g.maybe_adaptive({"type": t, "modes": g.pick_modes(1), "params": {"s": _small(rng)}}, "s", 0.1)
    if t == "CubicPhase":
        return g.maybe_adaptive({"type": t, "modes": g.pick_modes(1), "params": {"gamma": _small(rng, 0.05)}}, "gamma", 0.02)
    if t == "Squeezing2":
        return g.maybe_adaptive({"type": t, "modes": g.pick_modes(2), "params": {"r": _small(rng), "phi": _angle(rng)}}, "r", 0.1)
    raise KeyError(t)


def gen_batch(rng):
    """BatchPrepare([...]); gates; BatchApply([...]) on PureFockSimulator (no measurement: batch states have none)."""
    d = rng.randrange(1, 4)
    cutoff = rng.randrange(3, 5)
    nb = rng.randrange(2, 4)
    g = G(rng, "PureFockSimulator", {"adaptive": False})
    g.active = list(range(d))

    def sub_gates(n, allow_modeless):
        out = []
        for _ in range(n):
            if allow_modeless and rng.chance(0.5):
                out.append({"type": "Interferometer", "modes": None, "params": {"matrix": {"$": "haar", "n": d, "seed": rng.randrange(1000)}}})
            else:
                out.append(_purefock_gate(g, cutoff, True))
        return out

    preps = []
    for _ in range(nb):
        p = [{"type": "NumberState", "modes": None, "params": {"occupation_numbers": _occupation(rng, d, min(cutoff - 1, 2))}}] if rng.chance(0.6) else [{"type": "Vacuum", "modes": None, "params": {}}]
        preps.append(p + sub_gates(rng.randrange(0, 2), False))
    prog = [{"type": "BatchPrepare", "modes": None, "params": {"subprograms": {"$": "programs", "v": preps}}}]
    prog += sub_gates(rng.randrange(0, 3), False)
    applies = [sub_gates(rng.randrange(1, 3), True) for _ in range(nb)]
    prog.append({"type": "BatchApply", "modes": None, "params": {"subprograms": {"$": "programs", "v": applies}}})
    prog += sub_gates(rng.randrange(0, 2), False)
    return {"sim": "PureFockSimulator", "d": d, "config": {"cutoff": cutoff, "seed_sequence": rng.randrange(1, 10**6)}, "program": prog, "shots": 1, "batch": True}


# ---------------------------------------------------------------- general Fock


def gen_fock(rng, opts):
    d = opts.get("d") or rng.randrange(1, 3)
    cutoff = opts.get("cutoff") or rng.randrange(2, 5)
    g = G(rng, "FockSimulator", dict(opts, adaptive=False))
    g.active = list(range(d))
    if rng.chance(0.5):
        g.add({"type": "Vacuum", "modes": None, "params": {}})
    else:
        o = _occupation(rng, d, min(cutoff - 1, 2))
        g.add({"type": "DensityMatrix", "modes": None, "params": {"ket": o, "bra": o}})
    for _ in range(rng.randrange(1, 4)):
        t = rng.weighted([("p", 4), ("s", 2), ("att", 1)])
        if t == "p":
            g.add(passive_gate(g, allow_allmodes=True))
        elif t == "s":
            g.add(_purefock_gate(g, cutoff, True))
        else:
            g.add({"type": "Attenuator", "modes": g.pick_modes(1), "params": {"theta": _angle(rng)}})
    if rng.chance(0.8):
        g.add({"type": "ParticleNumberMeasurement", "modes": None if rng.chance(0.6) else g.pick_modes(rng.randrange(1, d + 1)), "params": {}})
    else:
        g.add({"type": "ImperfectParticleNumberMeasurement", "modes": None, "params": {"detector_efficiency_matrix": _detector(rng, cutoff)}})
    return {"sim": "FockSimulator", "d": d, "config": {"cutoff": cutoff}, "program": g.prog}


# ---------------------------------------------------------------- Gaussian


def _gaussian_gate(g):
    rng = g.rng
    n = len(g.active)
    choices = [("passive", 4), ("Squeezing", 3), ("Displacement", 3), ("PositionDisplacement", 1), ("MomentumDisplacement", 1), ("QuadraticPhase", 1), ("Attenuator", 1), ("GaussianTransform", 1)]
    if n >= 2:
        choices += [("Squeezing2", 1), ("ControlledX", 1), ("ControlledZ", 1), ("Graph", 1)]
    t = rng.weighted(choices)
    if t == "passive":
        return passive_gate(g)
    if t == "Graph":
        return {"type": "Graph", "modes": None, "params": {"adjacency_matrix": {"$": "adj", "n": n, "seed": rng.randrange(1000)}, "mean_photon_number": _r(rng.uniform(0.2, 1.0))}}
    if t == "GaussianTransform":
        r = _small(rng, 0.4)
        return {"type": "GaussianTransform", "modes": g.pick_modes(1), "params": {"passive": {"$": "sympl_sq", "n": 1, "r": r, "part": "passive"}, "active": {"$": "sympl_sq", "n": 1, "r": r, "part": "active"}}}
    if t == "Attenuator":  # an instruction with its own _validate and an outcome-dependent parameter
        return g.maybe_adaptive({"type": t, "modes": g.pick_modes(1), "params": {"theta": _angle(rng), "mean_thermal_excitation": _r(rng.uniform(0.0, 0.3))}}, "theta", 0.5)
    if t == "Squeezing":
        return g.maybe_adaptive({"type": t, "modes": g.pick_modes(1), "params": {"r": _small(rng, 0.6), "phi": _angle(rng)}}, "r", 0.2)
    if t == "Displacement":
        return g.maybe_adaptive({"type": t, "modes": g.pick_modes(1), "params": {"r": _small(rng, 0.8), "phi": _angle(rng)}}, "r", 0.3)
    if t == "PositionDisplacement":
        return g.maybe_adaptive({"type": t, "modes": g.pick_modes(1), "params": {"x": _small(rng, 0.8)}}, "x", 0.3)
    if t == "MomentumDisplacement":
        return g.maybe_adaptive({"type": t, "modes": g.pick_modes(1), "params": {"p": _small(rng, 0.8)}}, "p", 0.3)
    if t == "QuadraticPhase":
        return g.maybe_adaptive({"type": t, "modes": g.pick_modes(1), "params": {"s": _small(rng, 0.4)}}, "s", 0.2)
    if t == "Squeezing2":
        return g.maybe_adaptive({"type": t, "modes": g.pick_modes(2), "params": {"r": _small(rng, 0.4), "phi": _angle(rng)}}, "r", 0.2)
    if t in ("ControlledX", "ControlledZ"):
        return g.maybe_adaptive({"type": t, "modes": g.pick_modes(2), "params": {"s": _small(rng, 0.4)}}, "s", 0.2)
    raise KeyError(t)


def gen_gaussian(rng, opts):
    d = opts.get("d") or rng.randrange(1, 4 + DEEP)
    g = G(rng, "GaussianSimulator", opts)
    g.active = list(range(d))
    cfg = {}
    if d >= 2 and rng.chance(opts.get("correlated_dyne_p", 0.15)):
        # squeezed, entangled modes measured jointly: the covariance handed to the sampler is
        # ill-conditioned (homodyne is a general-dyne measurement with z = 1e-4), which is where
        # numerical fallbacks and their generators live
        g.add({"type": "Vacuum", "modes": None, "params": {}})
        r_all = _r(rng.uniform(0.3, 1.5))
        for m in range(d):
            g.add({"type": "Squeezing", "modes": [m], "params": {"r": r_all, "phi": _r(0.3 * m)}})
        for m in range(d - 1):
            g.add({"type": "Beamsplitter", "modes": [m, m + 1], "params": {"theta": _r(rng.uniform(0.4, 1.0)), "phi": _r(rng.uniform(0.0, 0.5))}})
        g.add({"type": "HomodyneMeasurement", "modes": list(range(d)), "params": {"phi": _r(rng.uniform(0.0, 1.0))}})
        return {"sim": "GaussianSimulator", "d": d, "config": cfg, "program": g.prog}
    if rng.chance(0.7):
        g.add({"type": "Vacuum", "modes": None, "params": {}})
    else:
        g.add({"type": "Thermal", "modes": None, "params": {"mean_photon_numbers": [_r(rng.uniform(0.0, 0.5)) for _ in range(d)]}})
    # always some squeezing so that photon statistics are non-trivial
    g.add({"type": "Squeezing", "modes": [rng.randrange(d)], "params": {"r": _small(rng, 0.7), "phi": _angle(rng)}})
    _ensure_mixing(g)
    n_meas = rng.randrange(0, 3) if d > 1 and opts.get("mid", True) else 0
    for seg in range(n_meas + 1):
        for _ in range(rng.randrange(0, 3)):
            g.add(_gaussian_gate(g))
        if seg < n_meas and len(g.active) > 1:
            k = rng.randrange(1, len(g.active))
            modes = g.pick_modes(k)
            kind = rng.pick(["homodyne", "homodyne", "heterodyne", "generaldyne"])
            _add_dyne(g, kind, modes)
    term = rng.weighted([("pnm", 4 if opts.get("gbs", True) else 0), ("threshold", 2 if opts.get("gbs", True) else 0), ("tor", 1 if opts.get("gbs", True) else 0), ("dyne", 3), ("none", 1 if opts.get("allow_no_terminal") else 0)])
    if term == "pnm":
        cfg["measurement_cutoff"] = rng.randrange(2, 5)
        g.add({"type": "ParticleNumberMeasurement", "modes": None if rng.chance(0.6) else g.pick_modes(rng.randrange(1, len(g.active) + 1)), "params": {}})
    elif term == "threshold":
        g.add({"type": "ThresholdMeasurement", "modes": None if rng.chance(0.6) else g.pick_modes(rng.randrange(1, len(g.active) + 1)), "params": {}})
    elif term == "tor":
        cfg["use_torontonian"] = True
        g.add({"type": "ThresholdMeasurement", "modes": None, "params": {}})
    elif term == "dyne":
        _add_dyne(g, rng.pick(["homodyne", "heterodyne", "generaldyne"]), g.pick_modes(rng.randrange(1, len(g.active) + 1)))
    return {"sim": "GaussianSimulator", "d": d, "config": cfg, "program": g.prog}


def _add_dyne(g, kind, modes):
    rng = g.rng
    if kind == "homodyne":
        g.add({"type": "HomodyneMeasurement", "modes": modes, "params": {"phi": _angle(rng)}})
    elif kind == "heterodyne":
        g.add({"type": "HeterodyneMeasurement", "modes": modes, "params": {}})
    else:
        a = _r(rng.uniform(0.5, 2.0))
        g.add({"type": "GeneraldyneMeasurement", "modes": modes, "params": {"detection_covariance": {"$": "detcov", "a": a, "excess": rng.pick([0.0, 0.0, 0.1])}}})
    g.measured(modes, kind, 0)


# ---------------------------------------------------------------- passive


def gen_passive(rng, opts):
    d = opts.get("d") or rng.randrange(1, 5 + DEEP)
    g = G(rng, "PassiveSimulator", opts)
    g.active = list(range(d))
    nmax = opts.get("nmax", 3 + DEEP)
    occ = _occupation(rng, d, nmax)
    if sum(occ) == 0 and rng.chance(0.8):
        occ[rng.randrange(d)] = 1
    prep = rng.weighted([("number", 6), ("dist_uniform", 2 if opts.get("overlap", True) else 0), ("dist_gram", 1 if opts.get("overlap", True) and sum(occ) >= 2 and max(occ) <= 1 else 0)])
    if prep == "number":
        g.add({"type": "NumberState", "modes": None, "params": {"occupation_numbers": occ}})
    elif prep == "dist_uniform":
        g.add({"type": "DistinguishableNumberState", "modes": None, "params": {"occupation_numbers": occ, "particle_overlap": _r(rng.uniform(0.0, 1.0))}})
    else:
        g.add({"type": "DistinguishableNumberState", "modes": None, "params": {"occupation_numbers": occ, "particle_overlap": {"$": "gram", "n": sum(occ), "seed": rng.randrange(100)}}})
    _ensure_mixing(g)
    loss = rng.weighted([("none", 5), ("uniform", 2), ("single", 2), ("lossy_if", 1)]) if opts.get("loss", True) else "none"
    if prep == "dist_gram":
        loss = "none"
    if loss == "uniform":
        g.add({"type": "UniformLoss", "modes": None, "params": {"transmissivity": _r(rng.uniform(0.3, 0.95))}})
    elif loss == "single":
        for m in g.pick_modes(rng.randrange(1, min(2, d) + 1)):
            g.add({"type": "Loss", "modes": [m], "params": {"transmissivity": _r(rng.uniform(0.3, 0.95))}})
    elif loss == "lossy_if":
        sv = [_r(rng.uniform(0.4, 1.0)) for _ in range(d)]
        if rng.chance(0.5):
            sv[rng.randrange(d)] = 1.0  # a lossless channel: the boundary of the documented [0, 1] domain
        g.add({"type": "LossyInterferometer", "modes": None, "params": {"matrix": {"$": "lossy", "n": d, "sv": sv, "seed": rng.randrange(1000)}}})
    n_meas = rng.randrange(0, 3) if d > 1 and opts.get("mid", True) and prep == "number" else 0
    # partially distinguishable photons (one scalar overlap) through an ideal or uniformly lossy network,
    # post-selected on some modes and measured on the others: the conditioned sampler of the passive backend
    dist_post = prep == "dist_uniform" and loss in ("none", "uniform") and d > 1 and opts.get("mid", True) and opts.get("postselect", True) and rng.chance(0.35)
    if dist_post:
        n_meas = 1
    for seg in range(n_meas + 1):
        for _ in range(rng.randrange(0, 3)):
            g.add(passive_gate(g))
        if seg < n_meas and len(g.active) > 1:
            k = rng.randrange(1, len(g.active))
            modes = g.pick_modes(k)
            what = rng.weighted([("pnm", 6), ("post", 1 if opts.get("postselect", True) and not g.n_outcomes else 0), ("imperfect", 1 if opts.get("imperfect", True) else 0)])
            if dist_post:
                what = "post"
            if what == "pnm":
                g.add({"type": "ParticleNumberMeasurement", "modes": modes, "params": {}})
            elif what == "post":
                g.add({"type": "PostSelectPhotons", "modes": modes, "params": {"photon_counts": {"$": "tuple", "v": [0 for _ in modes], "auto": True}}})
            else:
                g.add({"type": "ImperfectParticleNumberMeasurement", "modes": modes, "params": {"detector_efficiency_matrix": _detector(rng, max(sum(occ) + 1, 5))}})
            g.measured(modes, "post" if what == "post" else "pnm", sum(occ))
    term = rng.weighted([("pnm_all", 6), ("pnm_sub", 2), ("imperfect", 1 if opts.get("imperfect", True) else 0), ("none", 1 if opts.get("allow_no_terminal") else 0)])
    if dist_post and term in ("imperfect", "none"):
        term = "pnm_all"
    if term == "pnm_all":
        g.add({"type": "ParticleNumberMeasurement", "modes": None if rng.chance(0.6) else sorted(g.active), "params": {}})
    elif term == "pnm_sub":
        g.add({"type": "ParticleNumberMeasurement", "modes": g.pick_modes(rng.randrange(1, len(g.active) + 1)), "params": {}})
    elif term == "imperfect":
        g.add({"type": "ImperfectParticleNumberMeasurement", "modes": None, "params": {"detector_efficiency_matrix": _detector(rng, max(sum(occ) + 1, 5))}})
    return {"sim": "PassiveSimulator", "d": d, "config": {}, "program": g.prog}


# ---------------------------------------------------------------- fermionic


def gen_fermionic_fock(rng, opts):
    d = opts.get("d") or rng.randrange(2, 5 + DEEP)
    g = G(rng, "FermionicPureFockSimulator", opts)
    g.active = list(range(d))
    cutoff = d + 1
    occ = _occupation(rng, d, d, fermionic=True)
    # a tight cutoff (just above the particle number) with particle-number preserving gates only: after a
    # mid-circuit measurement that finds every particle the remaining modes live in a cutoff-1 space
    tight = opts.get("cutoff") is None and rng.chance(0.3)
    if tight:
        cutoff = sum(occ) + 1
    elif opts.get("cutoff"):
        cutoff = opts["cutoff"]
        tight = cutoff < d + 1
        if tight:
            occ = _occupation(rng, d, max(cutoff - 1, 0), fermionic=True) if cutoff > 1 else [0] * d
    g.add({"type": "NumberState", "modes": None, "params": {"occupation_numbers": occ}})
    _ensure_mixing(g)
    n_meas = rng.randrange(0, 3) if opts.get("mid", True) else 0
    for seg in range(n_meas + 1):
        for _ in range(rng.randrange(0, 3)):
            t = rng.weighted([("passive", 4), ("ControlledPhase", 1), ("IsingXX", 0 if tight else 1), ("Squeezing2", 0 if tight else 1)]) if len(g.active) >= 2 else "passive"
            if t == "passive":
                g.add(passive_gate(g, consecutive=True))
            elif t == "Squeezing2":
                g.add(g.maybe_adaptive({"type": t, "modes": g.pick_consecutive(2), "params": {"r": _small(rng, 0.5), "phi": _angle(rng)}}, "r", 0.2))
            else:
                g.add(g.maybe_adaptive({"type": t, "modes": g.pick_consecutive(2), "params": {"phi": _angle(rng)}}, "phi", 0.5))
        if seg < n_meas and len(g.active) > 1:
            modes = g.pick_modes(rng.randrange(1, len(g.active)))
            g.add({"type": "ParticleNumberMeasurement", "modes": modes, "params": {}})
            g.measured(modes, "pnm", 1)
    g.add({"type": "ParticleNumberMeasurement", "modes": None if rng.chance(0.6) else g.pick_modes(rng.randrange(1, len(g.active) + 1)), "params": {}})
    return {"sim": "FermionicPureFockSimulator", "d": d, "config": {"cutoff": cutoff}, "program": g.prog}


def gen_fermionic_gaussian(rng, opts):
    d = opts.get("d") or rng.randrange(2, 5)
    g = G(rng, "FermionicGaussianSimulator", dict(opts, adaptive=False))
    g.active = list(range(d))
    if rng.chance(0.3):
        g.add({"type": "Vacuum", "modes": None, "params": {}})
    else:
        g.add({"type": "NumberState", "modes": None, "params": {"occupation_numbers": _occupation(rng, d, d, fermionic=True)}})
    _ensure_mixing(g)
    for _ in range(rng.randrange(0, 3)):
        t = rng.weighted([("passive", 4), ("IsingXX", 1), ("Squeezing2", 1)]) if d >= 2 else "passive"
        if t == "passive":
            g.add(passive_gate(g, kinds=["Interferometer", "Beamsplitter", "Phaseshifter"]))
        elif t == "Squeezing2":
            g.add({"type": t, "modes": g.pick_modes(2), "params": {"r": _small(rng, 0.5), "phi": _angle(rng)}})
        else:
            g.add({"type": t, "modes": g.pick_modes(2), "params": {"phi": _angle(rng)}})
    g.add({"type": "ParticleNumberMeasurement", "modes": None if rng.chance(0.6) else g.pick_modes(rng.randrange(1, d + 1)), "params": {}})
    return {"sim": "FermionicGaussianSimulator", "d": d, "config": {}, "program": g.prog}


GENERATORS = {
    "PureFockSimulator": gen_purefock,
    "FockSimulator": gen_fock,
    "GaussianSimulator": gen_gaussian,
    "PassiveSimulator": gen_passive,
    "FermionicPureFockSimulator": gen_fermionic_fock,
    "FermionicGaussianSimulator": gen_fermionic_gaussian,
}


def gen_subject(seed, sim=None, **opts):
    rng = Rng(seed, "subject")
    sim = sim or rng.pick(ALL_SIMS)
    subj = GENERATORS[sim](rng, opts)
    subj["shots"] = opts.get("shots", rng.randrange(1, 13))
    subj["config"]["seed_sequence"] = opts.get("seed_sequence", rng.randrange(1, 10**6))
    return subj


def finalise(subject):
    """Resolve "auto" post-selection patterns to one of probability >= 0.05.

    Runs the program prefix exactly (shots=None) with the PostSelectPhotons replaced
    by a ParticleNumberMeasurement on the same modes and keeps the most likely
    pattern.  Post-selection is only generated before any other measurement, so the
    prefix is deterministic.  If the exact run itself fails the pattern stays all-zero.
    """
    from . import spec

    for idx, ins in enumerate(subject["program"]):
        pc = ins.get("params", {}).get("photon_counts")
        if not (isinstance(pc, dict) and pc.get("auto")):
            continue
        prefix = [dict(i) for i in subject["program"][:idx]]
        prefix.append({"type": "ParticleNumberMeasurement", "modes": ins["modes"], "params": {}})
        sub = dict(subject, program=prefix)
        try:
            try:
                sim = spec.build_simulator(sub)
                res = sim.execute(spec.build_program(prefix), shots=None)
            except Exception:  # noqa: BLE001
                if not any(i["type"] == "DistinguishableNumberState" for i in prefix):
                    raise
                # no exact mode for partially distinguishable photons: take the likeliest pattern of the same
                # photons made indistinguishable.  Its permanent is non-zero, so some path amplitude product is
                # non-zero, so the pattern also has positive probability for any overlap in [0, 1).
                prefix2 = [({"type": "NumberState", "modes": i["modes"], "params": {"occupation_numbers": i["params"]["occupation_numbers"]}} if i["type"] == "DistinguishableNumberState" else i) for i in prefix]
                sim = spec.build_simulator(dict(subject, program=prefix2))
                res = sim.execute(spec.build_program(prefix2), shots=None)
                pc["via"] = "indistinguishable"
            best = max(res.branches, key=lambda b: float(b.frequency))
            pc["v"] = [int(x) for x in best.outcome]
            pc["p"] = round(float(best.frequency), 6)
        except Exception as e:  # noqa: BLE001 - recorded, judged elsewhere
            pc["p"] = None
            pc["err"] = type(e).__name__
        pc.pop("auto")
    return subject
