"""Outcome-history steering: run a subject with the RNG seam in script mode.

Shared by C03 (shot accounting / chain rule) and C13 (acceptance on every outcome
history).  The branch tree of an adaptive program is a history written by the RNG;
here the simulator writes it, one categorical draw at a time, always choosing an
outcome the real RNG could have produced (positive weight, see rngseam.legal_indices).
"""

import random as _random
from collections import Counter
from fractions import Fraction

import numpy as np

from . import spec, rngseam
from . import instrument as ins
from .common import Rng, EventLog, Violation

STRATEGIES = ("typical", "rarest", "one_each", "all_first", "all_last", "max_photons", "min_photons", "two_outcomes")


def _photon_key(item, i):
    if isinstance(item, (tuple, list)):
        return sum(int(v) for v in item)
    try:
        return int(item)
    except (TypeError, ValueError):
        return i


class ScriptPolicy(rngseam.Policy):
    """Chooses categorical outcomes by strategy; one private PRNG decides the strategy per draw."""

    def __init__(self, seed, mix, log=None, monitor=None, per_draw=True):
        super().__init__(log)
        self.rng = Rng(seed, "script")
        self.mix = list(mix)
        self.monitor = monitor
        self.per_draw = per_draw
        self.fixed = self.rng.pick(self.mix)
        self.draws = []  # (step ordinal, source, population, weights, k, chosen indices or None)
        self.by_strategy = Counter()
        self.threshold_mode = self.rng.pick(["real", "real", "lo", "hi", "mixed"])

    def _strategy(self):
        return self.rng.pick(self.mix) if self.per_draw else self.fixed

    def categorical(self, source, population, weights, k):
        legal = rngseam.legal_indices(weights)
        ordinal = self.monitor.steps_entered - 1 if self.monitor is not None else -1
        strat = self._strategy()
        idx = None
        if legal and strat != "typical":
            w = np.asarray(weights, dtype=float)
            if strat == "rarest":
                i = min(legal, key=lambda j: (w[j], j))
                idx = [i] * k
            elif strat == "one_each":
                idx = [legal[j % len(legal)] for j in range(k)]
            elif strat == "all_first":
                idx = [legal[0]] * k
            elif strat == "all_last":
                idx = [legal[-1]] * k
            elif strat == "max_photons":
                i = max(legal, key=lambda j: (_photon_key(population[j], j), -j))
                idx = [i] * k
            elif strat == "min_photons":
                i = min(legal, key=lambda j: (_photon_key(population[j], j), j))
                idx = [i] * k
            elif strat == "two_outcomes":
                a = legal[self.rng.randrange(len(legal))]
                b = legal[self.rng.randrange(len(legal))]
                idx = [a if j % 2 == 0 else b for j in range(k)]
        self.by_strategy[strat if idx is not None else "typical"] += 1
        self.draws.append((ordinal, source, population, list(np.asarray(weights, dtype=float)), k, idx))
        return idx

    def threshold(self, source, method):
        m = self.threshold_mode
        if m == "mixed":
            m = self.rng.pick(["real", "lo", "hi"])
        if m == "lo":
            return 1e-12
        if m == "hi":
            return 1.0 - 1e-12
        return None


class Run:
    """Everything observed in one scripted execution."""

    def __init__(self):
        self.log = EventLog()
        self.monitor = ins.Monitor()
        self.monitor.log = self.log
        self.events = []  # step events with sub-branch views
        self.result = None
        self.exception = None
        self.samples = None
        self.counts = None
        self.counts_error = None
        self.policy = None
        self.initial_state_id = None
        self.steps_completed_at_exception = None
        self.sibling_changed = None
        self.live = {}


def execute_scripted(subject, script, shots="subject", simcls=None, program=None, keep_states=False):
    """Run `subject` once under the scripted seam; never raises for piquasso errors."""
    run = Run()
    mon = run.monitor
    policy = ScriptPolicy(script.get("seed", 0), script.get("mix", ["typical"]), run.log, mon, script.get("per_draw", True))
    if script.get("threshold"):
        policy.threshold_mode = script["threshold"]
    run.policy = policy
    shots = subject["shots"] if shots == "subject" else shots

    live = run.live = {}  # id(state) -> [state, checksum]: every branch state seen so far, kept alive
    partners = {}  # id(state) -> ids of other live states whose float/complex arrays overlap in memory

    def register(st):
        sid = id(st)
        if st is None or sid in live:
            return
        mine = _arrays(st)
        partners[sid] = set()
        for tid, (other, _c) in live.items():
            theirs = _arrays(other)
            if any(np.may_share_memory(x, y) for x in mine for y in theirs):
                partners[sid].add(tid)
                partners[tid].add(sid)
        live[sid] = [st, _checksum(st) if partners[sid] else None]
        for tid in partners[sid]:
            if live[tid][1] is None:
                live[tid][1] = _checksum(live[tid][0])

    def on_enter(ev):
        ev["sub"] = None
        st = ev["state"]
        ev["state_id"] = id(st)
        ev["state_norm"] = _norm(st)
        register(st)
        if not keep_states:
            ev.pop("state")
        ev.pop("instruction")
        run.events.append(ev)

    def on_exit(ev, branches):
        ev["sub"] = [(tuple(b.outcome), b.frequency, None if b.state is None else id(b.state), _norm(b.state)) for b in branches]
        if keep_states:
            ev["sub_states"] = [b.state for b in branches]
        # evolving one branch must not change the state of another branch: only states whose arrays overlap
        # in memory with a state this step touched can be affected, so only those are re-hashed
        touched = {ev["state_id"]} | {id(b.state) for b in branches if b.state is not None}
        suspects = set()
        for sid in touched:
            suspects |= partners.get(sid, set())
        for sid in suspects - touched:
            st, old = live[sid]
            new_sum = _checksum(st)
            if old is not None and new_sum != old:
                run.sibling_changed = (ev["idx"], ev["type"])
            live[sid][1] = new_sum
        for b in branches:
            register(b.state)
        for sid in touched:
            if sid in live and partners.get(sid):
                live[sid][1] = _checksum(live[sid][0])

    mon.on_enter = on_enter
    mon.on_exit = on_exit
    seam = rngseam.Seam(policy, urandom_seed=script.get("seed", 0), log=run.log)
    with seam:
        _random.seed(12345)
        np.random.seed(12345)
        try:
            prog = program if program is not None else spec.build_program(subject["program"], subject.get("build", "list"))
            base = simcls or spec.simulator_class(subject["sim"])
            cls = ins.instrumented_class(base, mon)
            sim = cls(d=spec.sim_d(subject), config=spec.build_config(subject.get("config", {})))
            mon.watch(prog)
            run.program = prog
            run.result = sim.execute(prog, shots=shots)
            if shots is not None:
                run.samples = run.result.samples
                try:
                    run.counts = run.result.get_counts()
                except NotImplementedError as e:
                    run.counts_error = e
        except Exception as e:  # noqa: BLE001 - judged by the caller
            run.exception = e
            run.steps_completed_at_exception = mon.steps_completed
    run.shots = shots
    run.seam_stats = {"draws": policy.n_draws, "scripted": policy.n_scripted}
    return run


def _arrays(state):
    out = []
    for v in vars(state).values():
        if isinstance(v, np.ndarray) and v.dtype.kind in "fc":
            out.append(v)
        elif isinstance(v, list):
            out.extend(x for x in v if isinstance(x, np.ndarray) and x.dtype.kind in "fc")
    return out


def _checksum(state):
    """Digest of the numerical content (float / complex arrays, also inside lists) of a state object."""
    import hashlib

    h = hashlib.sha1()
    for k, v in sorted(vars(state).items()):
        if isinstance(v, np.ndarray) and v.dtype.kind in "fc":
            h.update(k.encode())
            h.update(np.ascontiguousarray(v).tobytes())
        elif isinstance(v, list) and v and all(isinstance(x, (np.ndarray, complex, float, np.number)) for x in v):
            h.update(k.encode())
            for x in v:
                h.update(np.ascontiguousarray(x).tobytes())
    return h.hexdigest()


def _norm(state):
    if state is None:
        return None
    try:
        n = getattr(state, "norm", None)
        if n is None:
            return None
        n = n() if callable(n) else n
        return float(np.real(n))
    except Exception:  # noqa: BLE001
        return None


# --------------------------------------------------------------------------- reference model


def eval_expr(s, x):
    return eval(s, {"__builtins__": {}}, {"x": tuple(x), "abs": abs})  # noqa: S307 - generated strings only


def condition_holds(ins_spec, prefix):
    w = ins_spec.get("when")
    if w is None:
        return True
    if "expr" in w:
        return bool(eval_expr(w["expr"], prefix))
    return bool(spec.Fn(w["fn"])(prefix))


def expected_params(ins_spec, prefix):
    out = {}
    for k, v in ins_spec.get("params", {}).items():
        if isinstance(v, dict) and v.get("$") == "expr":
            out[k] = eval_expr(v["s"], prefix)
        elif isinstance(v, dict) and v.get("$") == "fn":
            out[k] = spec.Fn(v["f"])(prefix)
        elif isinstance(v, (int, float)) and not isinstance(v, bool):
            out[k] = v
    return out


def is_measurement(type_name):
    import piquasso as pq

    c = getattr(pq, type_name, None)
    return c is not None and issubclass(c, pq.Measurement)


def check_refinement(subject, run, prop="C03"):
    """Replay the recorded step events against a tiny sequential model of the branch tree."""
    if run.sibling_changed is not None:
        raise Violation(prop, "chain-rule", "branch-state-changed-by-sibling-step", "executing instruction %d (%s) on one branch changed the numerical content of another branch's state (the branches share array memory)" % run.sibling_changed)
    N = run.shots
    prog = subject["program"]
    active = list(range(subject["d"]))
    branches = [((), Fraction(1), "init")]
    events = list(run.events)
    pos = 0
    stats = {"max_fanout": 1, "unmet_conditions": 0, "met_conditions": 0, "adaptive_params_checked": 0}
    evolved = {}  # (instruction index, id of the input state) -> outcome prefix; all branch states of one instruction are alive together, so ids are unique
    for idx, spec_i in enumerate(prog):
        modes = spec_i["modes"] if spec_i.get("modes") is not None else list(active)
        if any(m not in active for m in modes):
            raise Violation(prop, "model", "generator-bug", "instruction %d addresses an inactive mode" % idx)
        want_modes = tuple(active.index(m) for m in modes)
        meas = is_measurement(spec_i["type"])
        new = []
        for prefix, freq, sid in branches:
            if not condition_holds(spec_i, prefix):
                new.append((prefix, freq, sid))
                stats["unmet_conditions"] += 1
                continue
            if spec_i.get("when"):
                stats["met_conditions"] += 1
            if pos >= len(events):
                raise Violation(prop, "condition-dispatch", "missing-step", "instruction %d (%s) should have run on the branch with outcome %s but no step was recorded" % (idx, spec_i["type"], prefix))
            ev = events[pos]
            pos += 1
            if ev["idx"] != idx:
                raise Violation(prop, "condition-dispatch", "wrong-step", "expected a step of instruction %d (%s) on branch %s, saw instruction %d (%s)" % (idx, spec_i["type"], prefix, ev["idx"], ev["type"]))
            if tuple(ev["modes"]) != want_modes:
                raise Violation(prop, "mode-remap", spec_i["type"], "instruction %d on original modes %s reached the step with modes %s, expected %s (active %s)" % (idx, modes, ev["modes"], want_modes, active))
            if (idx, ev["state_id"]) in evolved:
                raise Violation(prop, "chain-rule", "state-shared-between-branches", "instruction %d (%s) was applied twice to the same state object: the branches with outcomes %s and %s share their post-measurement state" % (idx, spec_i["type"], evolved[(idx, ev["state_id"])], prefix))
            evolved[(idx, ev["state_id"])] = prefix
            if sid != "init" and sid is not None and ev["state_id"] != sid:
                raise Violation(prop, "condition-dispatch", "wrong-state", "instruction %d ran on a state that is not the one of branch %s" % (idx, prefix))
            if N is not None:
                budget = freq * N
                if budget.denominator != 1 or budget < 1:
                    raise Violation(prop, "conservation", "branch-budget", "branch %s has frequency %s, not k/%d with positive integer k" % (prefix, freq, N))
                if ev["shots"] != int(budget):
                    raise Violation(prop, "conservation", "step-shots", "instruction %d on branch %s (frequency %s) was given shots=%s, expected %d" % (idx, prefix, freq, ev["shots"], int(budget)))
            elif ev["shots"] is not None:
                raise Violation(prop, "conservation", "step-shots", "shots=None run passed shots=%s to a step" % ev["shots"])
            for name, want in expected_params(spec_i, prefix).items():
                got = ev["params"].get(name)
                if isinstance(got, (int, float, complex, np.number)) and not np.isclose(got, want, rtol=1e-9, atol=1e-12):
                    raise Violation(prop, "param-dispatch", spec_i["type"] + "." + name, "instruction %d on branch %s saw %s=%r, the expression gives %r" % (idx, prefix, name, got, want))
                if isinstance(spec_i["params"][name], dict):
                    stats["adaptive_params_checked"] += 1
                    if not isinstance(got, (int, float, complex, np.number)):
                        raise Violation(prop, "param-dispatch", spec_i["type"] + "." + name, "instruction %d on branch %s saw unresolved %s=%r" % (idx, prefix, name, got))
            sub = ev["sub"]
            if sub is None:
                raise Violation(prop, "model", "incomplete-step", "step of instruction %d did not return" % idx)
            stats["max_fanout"] = max(stats["max_fanout"], len(sub))
            if not meas:
                if len(sub) != 1 or sub[0][0] != () or sub[0][1] != 1:
                    raise Violation(prop, "conservation", "non-measurement-branching", "instruction %d (%s) returned %d branches / outcome %s / frequency %s" % (idx, spec_i["type"], len(sub), sub[0][0] if sub else None, sub[0][1] if sub else None))
            elif N is not None:
                tot = Fraction(0)
                for o, f, _s, _n in sub:
                    if not isinstance(f, Fraction):
                        raise Violation(prop, "conservation", "non-fraction", "measurement %d returned frequency %r of type %s" % (idx, f, type(f).__name__))
                    k = f * ev["shots"]
                    if k.denominator != 1 or k < 1:
                        raise Violation(prop, "conservation", "sub-frequency", "measurement %d with %d shots returned frequency %s" % (idx, ev["shots"], f))
                    tot += f
                if tot != 1:
                    raise Violation(prop, "conservation", "sub-frequencies-sum", "measurement %d on branch %s: frequencies sum to %s" % (idx, prefix, tot))
            for o, f, s_id, _n in sub:
                new.append((prefix + tuple(o), freq * f, s_id))
        branches = new
        if meas:
            for m in modes:
                active.remove(m)
    if pos != len(events):
        ev = events[pos]
        raise Violation(prop, "condition-dispatch", "extra-step", "instruction %d (%s) ran although no branch required it" % (ev["idx"], ev["type"]))
    got = run.result.branches
    if len(got) != len(branches):
        raise Violation(prop, "model", "branch-count", "result has %d branches, the model %d" % (len(got), len(branches)))
    for b, (prefix, freq, sid) in zip(got, branches):
        if not spec.close(spec.plain(b.outcome), spec.plain(prefix)):
            raise Violation(prop, "chain-rule", "outcome-concatenation", "branch outcome %s, model %s" % (b.outcome, prefix))
        if N is not None:
            if b.frequency != freq:
                raise Violation(prop, "conservation", "frequency-product", "branch %s frequency %s, model %s" % (prefix, b.frequency, freq))
        elif abs(float(b.frequency) - float(freq)) > 1e-12 * max(1.0, abs(float(freq))):
            raise Violation(prop, "chain-rule", "weight-product", "branch %s weight %r, model %r" % (prefix, b.frequency, freq))
        if sid not in ("init", None) and (b.state is None or id(b.state) != sid):
            raise Violation(prop, "model", "branch-state", "branch %s does not carry the state its last step returned" % (prefix,))
    stats["branches"] = len(branches)
    return stats


def check_accounting(run, prop="C03"):
    """Result-level conservation for shots = N."""
    N = run.shots
    res = run.result
    fs = [b.frequency for b in res.branches]
    stats = {"duplicates": 0, "one_shot_branches": 0}
    for b in res.branches:
        f = b.frequency
        if not isinstance(f, Fraction):
            raise Violation(prop, "conservation", "non-fraction", "branch %s has frequency %r of type %s" % (b.outcome, f, type(f).__name__))
        k = f * N
        if k.denominator != 1 or k < 1:
            raise Violation(prop, "conservation", "k-over-N", "branch %s has frequency %s, not k/%d with positive integer k" % (b.outcome, f, N))
        if k == 1:
            stats["one_shot_branches"] += 1
    if sum(fs) != 1:
        raise Violation(prop, "conservation", "frequencies-sum", "branch frequencies sum to %s" % sum(fs))
    if sum(int(f * N) for f in fs) != N:
        raise Violation(prop, "conservation", "shot-sum", "sum of int(f*N) is %d, shots=%d" % (sum(int(f * N) for f in fs), N))
    if len(run.samples) != N:
        raise Violation(prop, "conservation", "samples-length", "len(samples)=%d, shots=%d" % (len(run.samples), N))
    want = Counter()
    has_meas = any(len(b.outcome) for b in res.branches)
    for b in res.branches:
        want[spec.plain(b.outcome)] += int(b.frequency * N)
    if len(want) < len(res.branches):
        stats["duplicates"] = len(res.branches) - len(want)
    got = Counter(spec.plain(s) for s in run.samples)
    if got != want:
        raise Violation(prop, "conservation", "samples-multiset", "samples %s, branches say %s" % (dict(got), dict(want)))
    if run.counts is not None and has_meas:
        c = {spec.plain(k): v for k, v in run.counts.items()}
        if sum(c.values()) != N:
            raise Violation(prop, "conservation", "counts-sum", "get_counts() sums to %d, shots=%d (%d branches, %d distinct outcomes)" % (sum(c.values()), N, len(res.branches), len(want)))
        if c != dict(want):
            raise Violation(prop, "conservation", "counts-multiset", "get_counts() %s, samples %s" % (c, dict(want)))
    return stats


def check_scripted_accounting(run, prop="C03"):
    """Every scripted `random.choices` draw must reappear, exactly once, as the outcomes of its step."""
    n = 0
    by_step = {}
    for ordinal, source, population, weights, k, idx in run.policy.draws:
        if idx is None or not source.startswith("random"):
            continue
        by_step.setdefault(ordinal, []).append((population, idx))
    for ev in run.events:
        draws = by_step.get(ev["ordinal"])
        if not draws or ev["sub"] is None or len(draws) != 1:
            continue
        if ev["type"] != "ParticleNumberMeasurement":
            continue
        population, idx = draws[0]
        want = Counter(tuple(int(v) for v in population[i]) for i in idx)
        got = Counter()
        for o, f, _s, _n in ev["sub"]:
            got[tuple(int(v) for v in o)] += int(f * ev["shots"])
        if got != want:
            raise Violation(prop, "conservation", "scripted-draws", "measurement %d: the RNG returned outcomes %s, the step reported %s" % (ev["idx"], dict(want), dict(got)))
        n += 1
    return n


def check_exact_norms(run, prop="C03"):
    """shots=None: at every measurement, weights sum to the norm of the measured state; PNM branches are normalised."""
    n = 0
    for ev in run.events:
        if ev["sub"] is None or not is_measurement(ev["type"]):
            continue
        if ev["type"] in ("PostSelectPhotons", "ImperfectPostSelectPhotons"):
            continue
        tot = sum(float(f) for _o, f, _s, _n in ev["sub"])
        norm = ev["state_norm"]
        if norm is not None:
            if abs(tot - norm) > 2e-6 * max(1.0, norm):  # entries np.isclose to 0 are dropped by the exact path
                raise Violation(prop, "chain-rule", "weights-vs-norm", "measurement %d (%s): weights sum to %.12g, the measured state has norm %.12g" % (ev["idx"], ev["type"], tot, norm))
            n += 1
        if ev["type"] == "ParticleNumberMeasurement":
            for o, f, _s, bn in ev["sub"]:
                # the state is divided by the outcome probability f, so an absolute rounding error e of the
                # (permanent-based) probabilities shows as e / f in the norm: 4e-14 / f allows for e up to 4e-14
                if bn is not None and float(f) > 1e-9 and abs(bn - 1.0) > 1e-8 + 4e-14 / float(f):
                    key = "branch-not-normalised"
                    if abs(bn - float(f)) < 1e-9 * max(1.0, abs(bn)):
                        key = "branch-norm-equals-outcome-probability"
                    raise Violation(prop, "chain-rule", key, "measurement %d outcome %s (weight %.12g): post-measurement state has norm %.12g" % (ev["idx"], o, float(f), bn))
    return n


def outcome_map(result, floor=1e-12):
    m = {}
    for b in result.branches:
        k = spec.plain(b.outcome)
        m[k] = m.get(k, 0.0) + float(b.frequency)
    return {k: v for k, v in m.items() if v > floor}


def maps_close(a, b, tol=1e-9):
    keys = set(a) | set(b)
    for k in keys:
        if abs(a.get(k, 0.0) - b.get(k, 0.0)) > tol:
            return k
    return None
