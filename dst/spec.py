"""Scenario subject documents <-> live piquasso objects.

A subject is plain JSON:

  {"sim": "PureFockSimulator", "d": 3, "config": {"cutoff": 4, "seed_sequence": 5},
   "shots": 5,
   "program": [{"type": "NumberState", "modes": [0,1,2] | null,
                "params": {"occupation_numbers": [1,1,0]},
                "when": {"expr": "x[0] > 0"} | {"fn": {...}} | absent}, ...]}

Parameters are given by recipes (dicts with a "$" key), never by pickles, so a
replay file means the same in a fresh interpreter.
"""

import numpy as np

_real_default_rng = np.random.default_rng  # captured before any seam is patched

SIMULATORS = {
    "PureFockSimulator": ("piquasso", "PureFockSimulator"),
    "FockSimulator": ("piquasso", "FockSimulator"),
    "GaussianSimulator": ("piquasso", "GaussianSimulator"),
    "PassiveSimulator": ("piquasso", "PassiveSimulator"),
    "FermionicPureFockSimulator": ("piquasso.fermionic", "PureFockSimulator"),
    "FermionicGaussianSimulator": ("piquasso.fermionic", "GaussianSimulator"),
}


def simulator_class(name):
    import importlib

    mod, attr = SIMULATORS[name]
    return getattr(importlib.import_module(mod), attr)


def haar(n, seed):
    """Haar unitary from a private generator (QR of a complex Ginibre matrix)."""
    g = _real_default_rng(int(seed))
    z = (g.normal(size=(n, n)) + 1j * g.normal(size=(n, n))) / np.sqrt(2)
    q, r = np.linalg.qr(z)
    ph = np.diag(r) / np.abs(np.diag(r))
    return q * ph


def stochastic(n, seed, diag=0.8, dark=0.0):
    """Column-stochastic detector matrix P[k, n] = P(click k | n).

    Upper-triangular (losses only) when dark == 0; with dark > 0 every column also has
    entries below the diagonal (dark counts: more clicks than photons, vacuum included).
    """
    g = _real_default_rng(int(seed))
    m = np.zeros((n, n))
    for col in range(n):
        w = g.uniform(0.05, 0.3, size=col + 1)
        w[col] = diag * (col + 1)
        m[: col + 1, col] = w / w.sum()
    if dark > 0:
        for col in range(n):
            k = n - col - 1
            if k == 0:
                continue
            extra = g.uniform(0.2, 1.0, size=k)
            extra = dark * extra / extra.sum()
            m[:, col] *= 1.0 - dark
            m[col + 1 :, col] = extra
    return m


class Fn:
    """A picklable-by-recipe user callable (parameter or condition)."""

    def __init__(self, rec):
        self.rec = dict(rec)
        self.calls = 0

    def __call__(self, x):
        self.calls += 1
        r = self.rec
        k = r["kind"]
        if k == "lin":  # a * x[i] + b
            return r.get("a", 1.0) * x[r.get("i", 0)] + r.get("b", 0.0)
        if k == "bounded":  # a * x/(1+x^2) + b: stays within [b - a/2, b + a/2] whatever the (continuous) outcome
            v = x[r.get("i", 0)]
            return r.get("a", 1.0) * v / (1.0 + v * v) + r.get("b", 0.0)
        if k == "gt":
            return x[r.get("i", 0)] > r.get("c", 0)
        if k == "eq":
            return x[r.get("i", 0)] == r.get("c", 0)
        if k == "le":
            return x[r.get("i", 0)] <= r.get("c", 0)
        if k == "parity":
            return sum(int(round(abs(v))) for v in x) % 2 == r.get("c", 0)
        if k == "const":
            return r.get("c", True)
        if k == "raise":
            raise ValueError("user callable failed (%s)" % r.get("msg", ""))
        if k == "raise_on_call":  # raises on its n-th call, fine otherwise
            if self.calls == r.get("n", 1):
                raise ValueError("user callable failed on call %d" % self.calls)
            return r.get("a", 0.1) * x[r.get("i", 0)]
        raise KeyError(k)

    def __repr__(self):
        return "Fn(%r)" % (self.rec,)


def mat(v):
    if isinstance(v, dict) and "$" in v:
        return realise(v)
    return v


def realise(v):
    """Turn a recipe into a value. Plain JSON passes through (lists stay lists)."""
    if isinstance(v, dict) and "$" in v:
        k = v["$"]
        if k == "haar":
            return haar(v["n"], v.get("seed", 0))
        if k == "lossy":  # contraction: haar * diag(s) * haar
            n = v["n"]
            s = np.asarray(v["sv"], dtype=float)
            return haar(n, v.get("seed", 0)) @ np.diag(s) @ haar(n, v.get("seed", 0) + 1)
        if k == "stochastic":
            return stochastic(v["n"], v.get("seed", 0), v.get("diag", 0.8), v.get("dark", 0.0))
        if k == "expr":
            return v["s"]
        if k == "fn":
            return Fn(v["f"])
        if k == "cplx":
            return complex(v["re"], v["im"])
        if k == "tuple":
            return tuple(realise(x) for x in v["v"])
        if k == "nd":
            a = np.array(realise_nested(v["data"]), dtype=v.get("dtype", None))
            return flavour(a, v.get("order", "C"))
        if k == "eye":
            return flavour(np.eye(v["n"], dtype=v.get("dtype", "float64")) * v.get("scale", 1.0), v.get("order", "C"))
        if k == "programs":  # a list of sub-programs (BatchPrepare / BatchApply)
            return [build_program(x) for x in v["v"]]
        if k == "fockmap":
            return {tuple(key): realise(val) for key, val in v["items"]}
        if k == "gram":  # Gram matrix of unit vectors: positive semidefinite, unit diagonal
            g = _real_default_rng(int(v.get("seed", 0)))
            n = v["n"]
            vecs = g.normal(size=(n, n)) + v.get("bias", 2.0)
            vecs /= np.linalg.norm(vecs, axis=1, keepdims=True)
            return vecs @ vecs.T
        if k == "detcov":  # diag(a, 1/a) * (1 + excess): saturates / exceeds the uncertainty bound
            a = float(v["a"])
            return np.diag([a, 1.0 / a]) * (1.0 + v.get("excess", 0.0) + 1e-9)
        if k == "sympl_sq":  # passive/active pair of a single-mode squeezer, k modes block
            n = v["n"]
            r = v.get("r", 0.1)
            return np.eye(n) * (np.cosh(r) if v["part"] == "passive" else np.sinh(r))
        if k == "adj":  # symmetric 0/1 adjacency matrix
            g = _real_default_rng(int(v.get("seed", 0)))
            n = v["n"]
            a = (g.uniform(size=(n, n)) < 0.6).astype(float)
            a = np.triu(a, 1)
            a = a + a.T
            if not a.any():
                a[0, -1] = a[-1, 0] = 1.0
            return a
        if k == "herm":
            g = _real_default_rng(int(v.get("seed", 0)))
            n = v["n"]
            a = g.normal(size=(n, n)) + 1j * g.normal(size=(n, n))
            return (a + a.conj().T) * v.get("scale", 0.2)
        raise KeyError("unknown recipe %r" % k)
    return v


def realise_nested(v):
    if isinstance(v, dict) and "$$" in v:  # an array recipe re-flavoured (C12)
        return realise(v["$$"])
    if isinstance(v, list):
        return [realise_nested(x) for x in v]
    return realise(v)


def flavour(a, order):
    if order == "C":
        return np.ascontiguousarray(a)
    if order == "F":
        return np.asfortranarray(a)
    if order == "strided":
        big = np.zeros(tuple(2 * s for s in a.shape), dtype=a.dtype)
        view = big[tuple(slice(None, None, 2) for _ in a.shape)]
        view[...] = a
        return view
    if order == "single":  # single precision, what a user of Config(dtype=np.float32) would pass
        return np.ascontiguousarray(a.astype(np.complex64 if a.dtype.kind == "c" else np.float32))
    if order == "readonly":
        b = np.ascontiguousarray(a).copy()
        b.setflags(write=False)
        return b
    raise KeyError(order)


def build_instruction(ins):
    import piquasso as pq

    cls = getattr(pq, ins["type"], None)
    if cls is None:
        import piquasso.fermionic as pf

        cls = getattr(pf, ins["type"])
    params = {k: realise(v) for k, v in ins.get("params", {}).items()}
    obj = cls(**params)
    if ins.get("modes") is not None:
        obj = obj.on_modes(*ins["modes"])
    w = ins.get("when")
    if w is not None:
        obj = obj.when(w["expr"] if "expr" in w else Fn(w["fn"]))
    return obj


def build_program(program_spec, style="list"):
    """Instruction specs -> Program.  {"type": "$nested", "register": [...], "program": [...]} registers a
    sub-program on a register, exactly as `pq.Q(*register) | subprogram` does inside a `with pq.Program()`.

    style "list": `Program(instructions=[ins.on_modes(...), ...])`; "context-all" / "context-empty": the
    `with pq.Program(): pq.Q(...) | ins` form, instructions without modes registered on `pq.Q(all)` / `pq.Q()`.
    """
    import piquasso as pq

    if style != "list":
        with pq.Program() as program:
            for i in program_spec:
                if i["type"] == "$nested":
                    pq.Q(*i["register"]) | build_program(i["program"])
                    continue
                obj = build_instruction(dict(i, modes=None))
                if i.get("modes") is not None:
                    pq.Q(*i["modes"]) | obj
                elif style == "context-all":
                    pq.Q(all) | obj
                else:
                    pq.Q() | obj
        return program
    program = pq.Program(instructions=[])
    for i in program_spec:
        if i["type"] == "$nested":
            sub = build_program(i["program"])
            sub._apply_to_program_on_register(program, register=pq.Q(*i["register"]))
        else:
            program.instructions.append(build_instruction(i))
    return program


_DTYPES = {"float64": np.float64, "float32": np.float32}


def build_config(cfg):
    import piquasso as pq

    kw = dict(cfg)
    if "dtype" in kw:
        kw["dtype"] = _DTYPES[kw["dtype"]]
    return pq.Config(**kw)


def sim_d(subject):
    """The `d` handed to the simulator: None when the subject asks for the number of modes to be inferred."""
    return None if subject.get("infer_d") else subject["d"]


def can_infer_d(subject):
    """Inference (largest explicitly addressed mode + 1) gives subject["d"] iff some instruction names mode d-1."""
    return any(i.get("modes") and (subject["d"] - 1) in i["modes"] for i in subject["program"] if i["type"] != "$nested")


def build_simulator(subject, simcls=None, config=None, connector=None):
    simcls = simcls or simulator_class(subject["sim"])
    config = config if config is not None else build_config(subject.get("config", {}))
    return simcls(d=sim_d(subject), config=config, connector=connector)


def plain(o):
    """Result payloads -> comparable plain python (ints exact, floats kept)."""
    from fractions import Fraction

    if isinstance(o, (list, tuple)):
        return tuple(plain(x) for x in o)
    if isinstance(o, np.ndarray):
        return tuple(plain(x) for x in o.tolist())
    if isinstance(o, (bool, np.bool_)):
        return bool(o)
    if isinstance(o, (int, np.integer)):
        return int(o)
    if isinstance(o, (float, np.floating)):
        return float(o)
    if isinstance(o, Fraction):
        return o
    if isinstance(o, (complex, np.complexfloating)):
        return complex(o)
    return o


def close(a, b, rtol=1e-9, atol=1e-12):
    """Structural equality: ints exactly, floats to rtol."""
    if isinstance(a, tuple) and isinstance(b, tuple):
        return len(a) == len(b) and all(close(x, y, rtol, atol) for x, y in zip(a, b))
    if isinstance(a, bool) or isinstance(b, bool):
        return a == b
    if isinstance(a, int) and isinstance(b, int):
        return a == b
    if isinstance(a, (float, complex)) and isinstance(b, (float, complex, int)):
        if a != a and b != b:
            return True
        return abs(a - b) <= atol + rtol * max(abs(a), abs(b))
    if isinstance(b, (float, complex)) and isinstance(a, int):
        return close(b, a, rtol, atol)
    return a == b
