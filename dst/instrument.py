"""Seams that need no repo hook: step wrappers, API-boundary call monitor, snapshots."""

import os
import sys

import numpy as np

from .common import REPO, EventLog

_PQ_ROOT = os.path.join(os.path.realpath(REPO), "piquasso") + os.sep
_API = tuple(
    os.path.join(os.path.realpath(REPO), "piquasso", "api", f)
    for f in ("simulator.py", "instruction.py", "program.py", "result.py")
)
_HARNESS = os.path.dirname(os.path.abspath(__file__)) + os.sep


def exception_kinds():
    from piquasso.api.exceptions import InvalidParameter

    class InjectedInvalidParameter(InvalidParameter):
        pass

    class InjectedValueError(ValueError):
        pass

    class InjectedMemoryError(MemoryError):
        pass

    class InjectedKeyboardInterrupt(KeyboardInterrupt):
        pass

    return {
        "InvalidParameter": InjectedInvalidParameter,
        "ValueError": InjectedValueError,
        "MemoryError": InjectedMemoryError,
        "KeyboardInterrupt": InjectedKeyboardInterrupt,
    }


_KINDS = None


def kinds():
    global _KINDS
    if _KINDS is None:
        _KINDS = exception_kinds()
    return _KINDS


def is_injected(exc):
    seen = set()
    while exc is not None and id(exc) not in seen:
        seen.add(id(exc))
        if type(exc).__name__.startswith("Injected"):
            return True
        exc = exc.__cause__ or exc.__context__
    return False


# ------------------------------------------------------------------ step wrappers


class Monitor:
    """Receives step entry/exit events from the wrapped `_instruction_map`."""

    def __init__(self):
        self.log = EventLog()
        self.index_of = {}  # id(instruction) -> position in the program under execution
        self.steps_entered = 0
        self.steps_completed = 0
        self.on_enter = None  # callable(ev) -> None
        self.on_exit = None  # callable(ev, branches) -> None
        self.exit_fault = None  # (step ordinal, exception class)
        self.entered = []  # (index, type name, modes, outcome-free params digest)

    def watch(self, program):
        self.index_of = {id(ins): i for i, ins in enumerate(program.instructions)}

    def reset_counts(self):
        self.steps_entered = 0
        self.steps_completed = 0
        self.entered = []


def _param_view(instruction):
    out = {}
    for k, v in instruction.params.items():
        if isinstance(v, np.ndarray):
            out[k] = ("nd", v.shape)
        elif isinstance(v, (int, float, complex, np.number)):
            out[k] = v
        else:
            out[k] = type(v).__name__
    return out


def wrap_step(step, monitor):
    def wrapped(state, instruction, shots):
        idx = monitor.index_of.get(id(instruction), -1)
        ordinal = monitor.steps_entered
        monitor.steps_entered += 1
        ev = {
            "idx": idx,
            "type": type(instruction).__name__,
            "modes": tuple(instruction.modes),
            "params": _param_view(instruction),
            "shots": shots,
            "state_d": getattr(state, "d", None),
            "ordinal": ordinal,
            "state": state,
            "instruction": instruction,
        }
        monitor.entered.append((idx, ev["type"], ev["modes"]))
        monitor.log.add("step>", idx, ev["type"], ev["modes"], shots, ev["state_d"], sorted((k, v) for k, v in ev["params"].items() if not isinstance(v, tuple)))
        if monitor.on_enter is not None:
            monitor.on_enter(ev)
        branches = step(state, instruction, shots)
        monitor.steps_completed += 1
        monitor.log.add("step<", idx, len(branches), [tuple(b.outcome) for b in branches], [str(b.frequency) if not isinstance(b.frequency, float) else b.frequency for b in branches])
        if monitor.on_exit is not None:
            monitor.on_exit(ev, branches)
        if monitor.exit_fault is not None and monitor.exit_fault[0] == ordinal:
            raise monitor.exit_fault[1]("injected after step %d returned" % ordinal)
        return branches

    wrapped.__name__ = getattr(step, "__name__", "step")
    wrapped.__wrapped__ = step
    return wrapped


def instrumented_class(simcls, monitor):
    """Subclass whose `_instruction_map` reports to `monitor` (custom simulators may override the map)."""
    new_map = {k: wrap_step(v, monitor) for k, v in simcls._instruction_map.items()}
    return type(simcls.__name__, (simcls,), {"_instruction_map": new_map, "__module__": simcls.__module__})


# ------------------------------------------------------------------ call-site monitor


class SiteTracer:
    """`sys.settrace` monitor of calls that leave the API layer.

    A site is a `call` event whose caller frame is in api/{simulator,instruction,
    program,result}.py and whose callee is piquasso code outside those files, or
    harness code (user callables, step wrappers).  Sites are named structurally:
    (instruction ordinal, callee name, occurrence within that instruction).
    Raising from the trace function makes the exception surface in the caller
    exactly as if the callee had raised on entry.
    """

    def __init__(self, inject=None, exc=None, deep=None):
        self.sites = []
        self.counts = {}
        self.instr = -1
        self.inject = tuple(inject) if inject is not None else None  # site key
        self.exc = exc
        self.fired = False
        self.deep = deep  # (instr ordinal, n-th piquasso call below the API layer)
        self.deep_count = 0

    def __call__(self, frame, event, arg):
        if event != "call":
            return None
        code = frame.f_code
        fn = code.co_filename
        caller = frame.f_back
        if caller is None:
            return None
        cfn = caller.f_code.co_filename
        if fn in _API:
            if code.co_name == "_apply_instruction_to_branches":
                self.instr += 1
                self.deep_count = 0
            if code.co_name != "_validate" or cfn not in _API:
                return None
            # Instruction._validate is the hook instruction classes override to refuse their
            # parameters; the base implementation lives in the API layer, but raising at its entry
            # is exactly "the instruction's validation raised", so it is a site like any override
        if cfn in _API:
            if not (fn.startswith(_PQ_ROOT) or fn.startswith(_HARNESS)):
                return None
            name = code.co_name
            k = (self.instr, name)
            occ = self.counts.get(k, 0)
            self.counts[k] = occ + 1
            key = (self.instr, name, occ)
            self.sites.append(key)
            if self.inject == key and not self.fired:
                self.fired = True
                raise self.exc("injected at site %r" % (key,))
            return None
        if self.deep is not None and fn.startswith(_PQ_ROOT) and self.instr == self.deep[0]:
            self.deep_count += 1
            if self.deep_count == self.deep[1] and not self.fired:
                self.fired = True
                raise self.exc("injected at deep call %d of instruction %d (%s)" % (self.deep[1], self.instr, code.co_name))
        elif self.deep is None and fn.startswith(_PQ_ROOT):
            self.deep_count += 1
        return None

    def run(self, fn):
        old = sys.gettrace()
        sys.settrace(self)
        try:
            return fn()
        finally:
            sys.settrace(old)


# ------------------------------------------------------------------ snapshots


def snap_value(v):
    if isinstance(v, np.ndarray):
        return ("nd", v.dtype.str, v.shape, v.strides if v.size else (), v.tobytes(), id(v), v.flags.writeable)
    if isinstance(v, (list, tuple)):
        return (type(v).__name__, tuple(snap_value(x) for x in v))
    if isinstance(v, dict):
        return ("dict", tuple((repr(k), snap_value(x)) for k, x in v.items()))
    if callable(v) and not isinstance(v, type):
        return ("callable", type(v).__name__, id(v))
    if hasattr(v, "instructions") and isinstance(getattr(v, "instructions"), list):  # a sub-program held as a parameter
        sp = snap_program(v)
        return ("program", id(v), sp["n"], sp["list_id"], tuple((i["type"], i["id"], i["modes"], i["params"], i["condition"]) for i in sp["ins"]))
    return (type(v).__name__, repr(v))


def snap_instruction(ins):
    cond = ins.condition
    return {
        "type": type(ins).__name__,
        "id": id(ins),
        "modes": (type(ins.modes).__name__, tuple(ins.modes)),
        "params": tuple((k, snap_value(v)) for k, v in ins.params.items()),
        "condition": None if cond is None else (type(cond).__name__, id(cond)),
    }


def snap_program(p):
    return {"n": len(p.instructions), "list_id": id(p.instructions), "ins": [snap_instruction(i) for i in p.instructions]}


_CONFIG_FIELDS = (
    "cutoff",
    "hbar",
    "dtype",
    "measurement_cutoff",
    "seed_sequence",
    "use_torontonian",
    "cache_size",
    "validate",
    "use_dask",
    "max_sample_generation_trials",
    "_cutoff_was_explicit",
    "_original_seed_sequence",
)


def snap_config(c):
    return tuple((k, repr(getattr(c, k, "<missing>"))) for k in _CONFIG_FIELDS) + (("rng_id", id(c.rng)),)


def snap_state(s):
    if s is None:
        return None
    out = []
    for k, v in sorted(vars(s).items()):
        if k == "_connector":
            continue
        if k == "_config":
            out.append((k, snap_config(v)))
        elif isinstance(v, np.ndarray):
            out.append((k, v.dtype.str, v.shape, v.tobytes()))
        elif isinstance(v, (list, tuple)):
            out.append((k, tuple(x.tobytes() if isinstance(x, np.ndarray) else repr(x) for x in v)))
        else:
            out.append((k, repr(v)))
    return tuple(out)


def diff_program(before, after):
    """-> list of (field key, human text) differences."""
    out = []
    if before["n"] != after["n"] or before["list_id"] != after["list_id"]:
        out.append(("program.instructions", "length/identity %s -> %s" % (before["n"], after["n"])))
    for i, (b, a) in enumerate(zip(before["ins"], after["ins"])):
        if b["id"] != a["id"]:
            out.append(("program.instructions", "instruction %d replaced" % i))
            continue
        if b["modes"] != a["modes"]:
            out.append(("instruction.modes", "#%d %s: %s -> %s" % (i, b["type"], b["modes"], a["modes"])))
        if b["condition"] != a["condition"]:
            out.append(("instruction.condition", "#%d %s" % (i, b["type"])))
        if b["params"] != a["params"]:
            bk = dict(b["params"])
            ak = dict(a["params"])
            if list(bk) != list(ak):
                out.append(("instruction.params:keys", "#%d %s: %s -> %s" % (i, b["type"], list(bk), list(ak))))
            for k in bk:
                if k in ak and bk[k] != ak[k]:
                    tb, ta = bk[k][0], ak[k][0]
                    if tb != ta:
                        out.append(("instruction.params:type", "#%d %s.%s: %s -> %s" % (i, b["type"], k, tb, ta)))
                    elif tb == "nd":
                        what = "identity" if bk[k][5] != ak[k][5] else "bytes"
                        out.append(("instruction.params:ndarray-" + what, "#%d %s.%s" % (i, b["type"], k)))
                    elif tb == "list" and any(isinstance(x, tuple) and x and x[0] == "program" for x in bk[k][1]):
                        out.append(_diff_subprograms(i, b["type"], k, bk[k][1], ak[k][1]))
                    else:
                        out.append(("instruction.params:value", "#%d %s.%s: %s -> %s" % (i, b["type"], k, str(bk[k])[:60], str(ak[k])[:60])))
    return out


def _diff_subprograms(i, typ, k, before, after):
    """First difference between two snapshots of a list of sub-programs held as a parameter."""
    if len(before) != len(after):
        return ("instruction.params:subprograms", "#%d %s.%s: %d -> %d sub-programs" % (i, typ, k, len(before), len(after)))
    for j, (pb, pa) in enumerate(zip(before, after)):
        if pb == pa:
            continue
        if pb[:4] != pa[:4]:
            return ("instruction.params:subprograms", "#%d %s.%s[%d]: sub-program replaced or its instruction list changed (%d -> %d instructions)" % (i, typ, k, j, pb[2], pa[2]))
        for n, (ib, ia) in enumerate(zip(pb[4], pa[4])):
            if ib == ia:
                continue
            what = "replaced" if ib[:2] != ia[:2] else "modes %s -> %s" % (ib[2][1], ia[2][1]) if ib[2] != ia[2] else "parameters changed" if ib[3] != ia[3] else "condition changed"
            field = "modes" if ib[:2] == ia[:2] and ib[2] != ia[2] else "value"
            return ("instruction.params:subprogram-" + field, "#%d %s.%s[%d] instruction %d (%s): %s" % (i, typ, k, j, n, ib[0], what))
    return ("instruction.params:subprograms", "#%d %s.%s" % (i, typ, k))


# ------------------------------------------------------------------ connector seam

CONNECTOR_FUNCTIONS = (
    "permanent", "permanent_laplace", "hafnian", "loop_hafnian", "loop_hafnian_batch", "pfaffian",
    "calculate_interferometer_on_fock_space", "calculate_interferometer_on_fermionic_fock_space",
    "apply_fermionic_passive_linear_to_state_vector", "density_matrix_from_gaussian",
    "svd", "polar", "schur", "logm", "real_logm", "expm", "powm", "sqrtm", "block", "block_diag",
    "embed_in_identity", "assign", "scatter", "transpose",
)


def faulty_connector(inject=None, exc=None):
    """A NumpyConnector (the injectable `connector=` argument) that counts the calls of its calculation
    functions and raises `exc` on the entry of call number `inject = (name, k)`.  Unlike the settrace
    monitor this also reaches functions implemented natively (permanent, pfaffian, numba kernels)."""
    import piquasso as pq

    calls = {}
    state = {"fired": False}

    def make(name):
        def method(self, *a, **kw):
            k = calls.get(name, 0)
            calls[name] = k + 1
            if inject is not None and not state["fired"] and inject[0] == name and inject[1] == k:
                state["fired"] = True
                raise exc("injected at connector.%s call %d" % (name, k))
            return getattr(super(cls, self), name)(*a, **kw)

        method.__name__ = name
        return method

    cls = type("NumpyConnector", (pq.NumpyConnector,), {})
    for name in CONNECTOR_FUNCTIONS:
        if hasattr(pq.NumpyConnector, name):
            setattr(cls, name, make(name))
    conn = cls()
    conn._dst_calls = calls
    conn._dst_state = state
    return conn
