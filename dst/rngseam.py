"""The RNG seam: every source of randomness piquasso can reach goes through here.

Patched while a scenario runs, restored afterwards (nothing in /repo is touched):

* `numpy.random.default_rng` -> factory returning `GenProxy` around a real Generator
  (piquasso looks the attribute up at call time in api/config.py, passive/sampling.py
  and gaussian/simulation_steps.py, so Config.rng and every per-shot generator are
  proxies, whatever module creates them);
* the module-level functions `random.choices / uniform / random / seed` and the
  same methods of the class `random.Random` (so a Config-owned `random.Random`
  would be caught too); `Result.samples` uses `random.Random(seed).shuffle`, which is
  left alone;
* `os.urandom` as seen by piquasso.api.config -> a seeded stream.

A policy object decides what a draw returns:
  record mode  - forward to the real generator, log, call `policy.on_draw` (yield point);
  script mode  - categorical draws answer what the outcome script says, restricted to
                 entries with weight >= 1e-6 of the largest; threshold draws
                 (`rng.uniform()`/`rng.random()` with no arguments) answer a scripted
                 extreme or a real draw; everything continuous passes through.
Logging never draws and never reads a clock.
"""

import copy
import os
import random as _random

import numpy as np

_real_default_rng = np.random.default_rng
_real_choices = _random.Random.choices
_real_uniform = _random.Random.uniform
_real_module = {k: getattr(_random, k) for k in ("choices", "uniform", "random", "seed")}
_real_urandom = os.urandom


class Policy:
    """Default policy: pure recording."""

    def __init__(self, log=None):
        self.log = log
        self.n_draws = 0
        self.n_scripted = 0
        self.generators = []

    # categorical: return list of indices or None for "real draw"
    def categorical(self, source, population, weights, k):
        return None

    # threshold: return float or None
    def threshold(self, source, method):
        return None

    def on_draw(self, source, method, info):
        """Called before every draw (a yield point for the scheduler)."""

    def on_new_generator(self, proxy):
        self.generators.append(proxy)


_current = None  # the installed Seam


class GenProxy:
    """Stands in for numpy.random.Generator; forwards everything, consults the policy."""

    def __init__(self, gen, name, seam, seed=None):
        self.__dict__["_g"] = gen
        self.__dict__["_name"] = name
        self.__dict__["_seam"] = seam
        self.__dict__["_seed"] = seed

    def __deepcopy__(self, memo):
        seam = self._seam
        clone = GenProxy(copy.deepcopy(self._g, memo), seam.new_name(self._name + "'"), seam, self._seed)
        seam.policy.on_new_generator(clone)
        return clone

    def __reduce__(self):
        return (_rebuild_proxy, (self._g, self._name))

    @property
    def bit_generator(self):
        return self._g.bit_generator

    def __getattr__(self, k):
        if k.startswith("__"):
            raise AttributeError(k)
        a = getattr(self._g, k)
        if not callable(a):
            return a
        seam = self._seam
        name = self._name

        def call(*args, **kw):
            pol = seam.policy
            pol.n_draws += 1
            if k == "choice":
                return seam.gen_choice(self, a, args, kw)
            if k in ("uniform", "random") and not args and not kw:
                pol.on_draw(name, k, self)
                v = pol.threshold(name, k)
                if v is not None:
                    pol.n_scripted += 1
                    a()  # consume the real draw too, so later continuous draws are unchanged
                    seam.log_draw(name, k, "scripted", v)
                    return v
                v = a()
                seam.log_draw(name, k, "real", v)
                return v
            pol.on_draw(name, k, self)
            out = a(*args, **kw)
            seam.log_draw(name, k, "real", _shape_of(out))
            return out

        return call

    def __repr__(self):
        return "GenProxy(%s)" % self._name


def _rebuild_proxy(gen, name):
    seam = _current
    if seam is None:
        return gen
    return GenProxy(gen, name, seam)


def _shape_of(x):
    if isinstance(x, np.ndarray):
        return ("nd",) + x.shape
    return "scalar"


class Seam:
    def __init__(self, policy, urandom_seed=0, log=None):
        self.policy = policy
        self.log = log
        self.names = {}
        self.installed = False
        self._urandom = _random.Random(urandom_seed)
        self.urandom_calls = 0
        self.global_random_calls = 0
        self._random_names = {}
        self._random_refs = {}

    def new_name(self, base):
        n = self.names.get(base, 0)
        self.names[base] = n + 1
        return base if n == 0 else "%s#%d" % (base, n)

    def log_draw(self, source, method, how, payload):
        if self.log is not None:
            self.log.add("draw", source, method, how, payload)

    # ---- numpy
    def default_rng(self, seed=None, *a, **kw):
        g = _real_default_rng(seed, *a, **kw)
        if isinstance(seed, (int, np.integer)):
            label = "gen(seed=%d)" % int(seed)
        else:
            label = "gen(seed=%s)" % type(seed).__name__
        p = GenProxy(g, self.new_name(label), self, seed)
        self.policy.on_new_generator(p)
        if self.log is not None:
            self.log.add("rng-new", p._name)
        return p

    def gen_choice(self, proxy, real, args, kw):
        pol = self.policy
        a = args[0] if args else kw.get("a")
        size = args[1] if len(args) > 1 else kw.get("size")
        p = args[3] if len(args) > 3 else kw.get("p")
        pol.on_draw(proxy._name, "choice", proxy)
        if p is not None:
            n = int(a) if isinstance(a, (int, np.integer)) else len(a)
            k = 1 if size is None else int(np.prod(size))
            idx = pol.categorical(proxy._name, list(range(n)) if isinstance(a, (int, np.integer)) else list(a), p, k)
            if idx is not None:
                pol.n_scripted += 1
                real(*args, **kw)  # keep the real stream aligned
                vals = np.array([i if isinstance(a, (int, np.integer)) else a[i] for i in idx])
                self.log_draw(proxy._name, "choice", "scripted", list(map(int, idx)))
                return vals[0] if size is None else vals.reshape(size)
        out = real(*args, **kw)
        self.log_draw(proxy._name, "choice", "real", np.asarray(out).ravel().tolist() if p is not None else _shape_of(out))
        return out

    # ---- python random (module-level functions and Random methods)
    def _choices(self, inst, population, weights=None, *, cum_weights=None, k=1):
        pol = self.policy
        src = self._random_name(inst)
        if inst is _random._inst:
            self.global_random_calls += 1
        pol.n_draws += 1
        pol.on_draw(src, "choices", None)
        if weights is not None:
            idx = pol.categorical(src, list(population), list(weights), k)
            if idx is not None:
                pol.n_scripted += 1
                _real_choices(inst, population, weights, cum_weights=cum_weights, k=k)
                self.log_draw(src, "choices", "scripted", list(map(int, idx)))
                return [population[i] for i in idx]
        out = _real_choices(inst, population, weights, cum_weights=cum_weights, k=k)
        self.log_draw(src, "choices", "real", len(out))
        return out

    def _uniform(self, inst, a, b):
        pol = self.policy
        src = self._random_name(inst)
        if inst is _random._inst:
            self.global_random_calls += 1
        pol.n_draws += 1
        pol.on_draw(src, "uniform", None)
        v = _real_uniform(inst, a, b)
        self.log_draw(src, "uniform", "real", v)
        return v

    def _random_name(self, inst):
        """Stable name of a random.Random instance: order of first use, never its address."""
        if inst is _random._inst:
            return "random-module"
        key = id(inst)
        name = self._random_names.get(key)
        if name is None or self._random_refs.get(key) is not inst:
            name = "random.Random#%d" % len(self._random_names)
            self._random_names[key] = name
            self._random_refs[key] = inst
        return name

    def _module_random(self):
        self.global_random_calls += 1
        self.policy.n_draws += 1
        self.policy.on_draw("random-module", "random", None)
        v = _real_module["random"]()
        self.log_draw("random-module", "random", "real", v)
        return v

    def _module_seed(self, a=None, version=2):
        if self.log is not None:
            self.log.add("random.seed", a if isinstance(a, (int, type(None))) else type(a).__name__)
        return _real_module["seed"](a, version)

    def urandom(self, n):
        self.urandom_calls += 1
        return bytes(self._urandom.getrandbits(8) for _ in range(n))

    # ---- install / uninstall
    def install(self):
        global _current
        assert _current is None, "seam already installed"
        _current = self
        seam = self
        np.random.default_rng = self.default_rng
        _random.choices = lambda population, weights=None, *, cum_weights=None, k=1: seam._choices(_random._inst, population, weights, cum_weights=cum_weights, k=k)
        _random.uniform = lambda a, b: seam._uniform(_random._inst, a, b)
        _random.random = self._module_random
        _random.seed = self._module_seed
        _random.Random.choices = lambda inst, population, weights=None, *, cum_weights=None, k=1: seam._choices(inst, population, weights, cum_weights=cum_weights, k=k)
        _random.Random.uniform = lambda inst, a, b: seam._uniform(inst, a, b)
        import piquasso.api.config as cfgmod

        self._cfg_os = cfgmod.os
        cfgmod.os = _OsProxy(self)
        self.installed = True
        return self

    def uninstall(self):
        global _current
        np.random.default_rng = _real_default_rng
        for k, v in _real_module.items():
            setattr(_random, k, v)
        _random.Random.choices = _real_choices
        _random.Random.uniform = _real_uniform
        import piquasso.api.config as cfgmod

        cfgmod.os = self._cfg_os
        _current = None
        self.installed = False

    def __enter__(self):
        return self.install()

    def __exit__(self, *exc):
        self.uninstall()


class _OsProxy:
    def __init__(self, seam):
        self._seam = seam

    def urandom(self, n):
        return self._seam.urandom(n)

    def __getattr__(self, k):
        return getattr(os, k)


def legal_indices(weights, floor=1e-6):
    """Indices an honest RNG could plausibly return: weight >= floor * max weight.

    piquasso's probability maps contain exact zeros and rounding noise (1e-17) for
    impossible outcomes; forcing such an entry would project onto a zero-norm state.
    """
    w = np.asarray(weights, dtype=float)
    if w.size == 0 or not np.all(np.isfinite(w)) or w.max() <= 0:
        return []
    return [i for i in range(len(w)) if w[i] >= floor * w.max()]
