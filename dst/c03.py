"""C03 - shot accounting and the chain rule of measurement.

Engine `outcomes`: seeded search over outcome histories chosen at the RNG seam.
Oracles: conservation of shots over the branch tree (a small sequential reference
model replays the recorded step events), exact branch weights vs the norm of the
measured state, sequential == joint measurement, and the weight vector handed to
the categorical draw vs the exact conditional distribution.
"""

import copy

import numpy as np

from . import gen, spec, outcomes
from .common import Rng, Violation

PROPERTY = "C03"
LEVEL = "exploration"
FAMILY_WALL_S = 600
RULE = (
    "family = one seed-generated adaptive program (simulator, d<=4, cutoff<=5, <=3 measurements, conditions and outcome-dependent parameters); "
    "evaluations = executions judged: shots=N under several outcome scripts (strategy per categorical draw: typical, rarest, one shot per outcome, all shots on one outcome, max/min photons, two outcomes), "
    "shots=None exact runs, sequential-vs-joint pairs and seam-link comparisons; non-trivial = at least one categorical draw was scripted or the program has a mid-circuit measurement; "
    "distinct = distinct event-log digests (every draw, scripted choice, step entry/exit with modes, parameters, shots and sub-branches)"
)
REAL = ["piquasso sources from the working tree (all six simulators, NumPy connector), shipped native kernels, numba kernels", "numpy Generator / random streams for every draw that is not scripted"]
STUBBED = ["the outcome of categorical draws (random.choices with weights, Generator.choice with p) and no-argument uniform/random threshold draws is chosen by the scenario, among entries with weight >= 1e-6 of the largest"]
ASSUMPTIONS = [
    "a scripted outcome has positive weight in the distribution piquasso itself passed to the draw, so every explored history is one the shipped RNG could produce",
    "parameter expressions are evaluated by Python's eval as the reference meaning (only + - * / ** comparisons and indexing are generated)",
    "programs whose reference execution raises are discarded here and judged under C13",
]
ENV = {"NUMBA_NUM_THREADS": "1", "OMP_THREAD_LIMIT": "4"}

SIMS = [("PureFockSimulator", 6), ("PassiveSimulator", 5), ("FermionicPureFockSimulator", 3), ("GaussianSimulator", 4), ("FockSimulator", 1), ("FermionicGaussianSimulator", 1)]
MIXES = [
    ["typical"],
    ["rarest"],
    ["one_each"],
    ["all_last"],
    ["all_first"],
    ["max_photons"],
    ["min_photons"],
    ["two_outcomes"],
    ["typical", "rarest", "one_each", "max_photons"],
    ["one_each", "two_outcomes", "all_last"],
    list(outcomes.STRATEGIES),
]


def plan(tier):
    if tier == "thorough":
        return {"families": 120000, "budget_s": 2400, "grace_s": 600}
    return {"families": 800, "budget_s": 170, "grace_s": 240}


def setup(tier):
    import piquasso  # noqa: F401


def supports_shots_none(subject):
    from .c12 import supports_shots_none as f

    return f(subject)


def has_active_gates(subject):
    return any(i["type"] in ("Squeezing", "Displacement", "PositionDisplacement", "MomentumDisplacement", "QuadraticPhase", "CubicPhase", "Squeezing2", "Create", "Annihilate", "Attenuator") for i in subject["program"])


# ------------------------------------------------------------------ scenario kinds


def judge(sc):
    """-> (status, signature, detail, digest, stats)"""
    kind = sc["kind"]
    try:
        if kind == "scripted":
            return _judge_scripted(sc)
        if kind == "exact":
            return _judge_exact(sc)
        if kind == "seqjoint":
            return _judge_seqjoint(sc)
        if kind == "seamlink":
            return _judge_seamlink(sc)
        raise KeyError(kind)
    except Violation as v:
        prog = sc["subject"]["program"]
        lossy = any(i["type"] in ("Loss", "LossyInterferometer") for i in prog)
        dist = any(i["type"] == "DistinguishableNumberState" and i["params"].get("particle_overlap") != 0.0 for i in prog)
        facts = {"sim": sc["subject"]["sim"], "kind": kind, "tail": prog[-1]["type"], "distinguishable_and_lossy": bool(lossy and dist), "nonuniform_loss": bool(lossy)}
        return {"status": "violation", "sig": v.signature, "detail": v.detail, "digest": getattr(v, "digest", None), "facts": facts}


def _discard(run, why=None):
    e = run.exception
    return {"status": "discard", "detail": why or ("%s: %s" % (type(e).__name__, str(e)[:120])), "digest": run.log.digest(), "counters": {"discards": {type(e).__name__ if e else "other": 1}}}


def _judge_scripted(sc):
    subject = sc["subject"]
    run = outcomes.execute_scripted(subject, sc["script"])
    if run.exception is not None:
        return _discard(run)
    try:
        acc = outcomes.check_accounting(run)
        ref = outcomes.check_refinement(subject, run)
        n_acc = outcomes.check_scripted_accounting(run)
    except Violation as v:
        v.digest = run.log.digest()
        raise
    c = {
        "outcome_histories": 1,
        "strategies": dict(run.policy.by_strategy),
        "branches": ref["branches"],
        "draws": run.seam_stats["draws"],
        "draws_scripted": run.seam_stats["scripted"],
        "scripted_draws_accounted": n_acc,
        "adaptive_params_checked": ref["adaptive_params_checked"],
        "reach": {
            "duplicates": 1 if acc["duplicates"] else 0,
            "one_shot_branches": 1 if acc["one_shot_branches"] else 0,
            "unmet_conditions": 1 if ref["unmet_conditions"] else 0,
            "met_conditions": 1 if ref["met_conditions"] else 0,
        },
        "by_sim": {subject["sim"]: 1},
    }
    return {"status": "pass", "digest": run.log.digest(), "counters": c, "max": {"max_fanout": ref["max_fanout"]}, "nontrivial": run.seam_stats["scripted"] > 0 or ref["branches"] > 1}


def _judge_exact(sc):
    subject = sc["subject"]
    run = outcomes.execute_scripted(subject, {"seed": 0, "mix": ["typical"]}, shots=None)
    if run.exception is not None:
        return _discard(run)
    try:
        ref = outcomes.check_refinement(subject, run)
        n = outcomes.check_exact_norms(run)
    except Violation as v:
        v.digest = run.log.digest()
        raise
    return {"status": "pass", "digest": run.log.digest(), "counters": {"exact_runs": 1, "norm_checks": n, "branches": ref["branches"], "by_sim": {subject["sim"]: 1}}, "max": {"max_fanout": ref["max_fanout"]}, "nontrivial": ref["branches"] > 1}


def _judge_seqjoint(sc):
    a = outcomes.execute_scripted(sc["subject"], {"seed": 0, "mix": ["typical"]}, shots=None)
    b = outcomes.execute_scripted(sc["joint"], {"seed": 0, "mix": ["typical"]}, shots=None)
    if a.exception is not None or b.exception is not None:
        return _discard(a if a.exception is not None else b)
    ma, mb = outcomes.outcome_map(a.result), outcomes.outcome_map(b.result)
    A, B = sc["A"], sc["B"]
    order = sorted(range(len(A) + len(B)), key=lambda i: (A + B)[i])  # joint lists A+B sorted by mode
    ma = {tuple(o[i] for i in order): v for o, v in ma.items()}
    bad = outcomes.maps_close(ma, mb, 1e-7)  # shots=None drops weights np.isclose to 0 (atol 1e-8) on either side
    digest = a.log.digest() + b.log.digest()[:4]
    if bad is not None:
        key = "sequential-vs-joint"
        # the precise shape of one known defect: every sequential weight is the joint weight times P(first outcome)
        pa = {}
        pos_a = [j for j, i in enumerate(order) if i < len(A)]
        for o, v in mb.items():
            k = tuple(o[j] for j in pos_a)
            pa[k] = pa.get(k, 0.0) + v
        if all(abs(ma.get(o, 0.0) - v * pa[tuple(o[j] for j in pos_a)]) < 1e-7 for o, v in mb.items()):
            key = "sequential-vs-joint:weights-multiplied-by-first-outcome-probability"
        v = Violation("C03", "chain-rule", key, "outcome %s: sequential weight %.12g, joint weight %.12g" % (bad, ma.get(bad, 0.0), mb.get(bad, 0.0)))
        v.digest = digest
        raise v
    return {"status": "pass", "digest": digest, "counters": {"seqjoint_pairs": 1, "seqjoint_outcomes": len(ma), "by_sim": {sc["subject"]["sim"]: 1}}, "nontrivial": len(ma) > 1}


def _judge_seamlink(sc):
    subject = sc["subject"]
    exact = outcomes.execute_scripted(subject, {"seed": 0, "mix": ["typical"]}, shots=None)
    if exact.exception is not None:
        return _discard(exact)
    run = outcomes.execute_scripted(subject, sc["script"])
    if run.exception is not None:
        return _discard(run)
    joint = outcomes.outcome_map(exact.result, floor=0.0)
    total = sum(joint.values())
    if abs(total - 1.0) > 1e-8:
        return {"status": "discard", "detail": "exact weights sum to %.6g (non norm-preserving program)" % total, "digest": run.log.digest(), "counters": {"discards": {"not-normalised": 1}}}
    # prefix of each step = outcome prefix of the branch it ran on; recover from the refinement order
    prefixes = _step_prefixes(subject, run)
    n = 0
    for ordinal, source, population, weights, k, idx in run.policy.draws:
        if not source.startswith("random") or ordinal not in prefixes:
            continue
        prefix = prefixes[ordinal]
        w = np.asarray(weights, dtype=float)
        if w.sum() <= 0:
            continue
        w = w / w.sum()
        p_prefix = sum(v for o, v in joint.items() if o[: len(prefix)] == prefix)
        if p_prefix < 1e-9:
            continue
        for item, wi in zip(population, w):
            full = prefix + tuple(int(x) for x in item)
            want = sum(v for o, v in joint.items() if o[: len(full)] == full) / p_prefix
            if abs(wi - want) > 1e-7:
                v = Violation("C03", "chain-rule", "seam-weights", "measurement after outcomes %s: weight handed to the draw for %s is %.10g, exact conditional %.10g" % (prefix, tuple(item), wi, want))
                v.digest = run.log.digest()
                raise v
        n += 1
    return {"status": "pass", "digest": run.log.digest(), "counters": {"seamlink_draws_checked": n, "by_sim": {subject["sim"]: 1}}, "nontrivial": n > 0}


def _step_prefixes(subject, run):
    """ordinal of each step event -> outcome prefix of the branch it ran on (replays the model)."""
    out = {}
    branches = [()]
    pos = 0
    for idx, spec_i in enumerate(subject["program"]):
        new = []
        for prefix in branches:
            if not outcomes.condition_holds(spec_i, prefix):
                new.append(prefix)
                continue
            if pos >= len(run.events):
                return out
            ev = run.events[pos]
            pos += 1
            out[ev["ordinal"]] = prefix
            for o, f, _s, _n in ev["sub"] or []:
                new.append(prefix + tuple(o))
        branches = new
    return out


# ------------------------------------------------------------------ family


def gen_seqjoint(rng, sim):
    """prefix; PNM(A); U; PNM(B)   vs   prefix; U; PNM(A+B)   with U acting only outside A."""
    opts = {"mid": False, "allow_no_terminal": False, "postselect": False, "imperfect": False, "homodyne": False, "adaptive": False, "loss": rng.chance(0.3), "overlap": False}
    d = rng.randrange(2, 5)
    subject = gen.gen_subject(rng.randrange(2**62), sim, d=d, shots=1, **opts)
    prog = [i for i in subject["program"] if not outcomes.is_measurement(i["type"])]
    modes = list(range(d))
    rng.shuffle(modes)
    ka = rng.randrange(1, d)
    if sim != "PassiveSimulator" and rng.chance(0.2):
        ka = 0  # a single measurement listing every mode in a seeded order, against the sorted listing
    A = modes[:ka]
    rest = modes[ka:]
    B = rest[: rng.randrange(1, len(rest) + 1)]
    # PureFock / Fock / fermionic Fock report the entries of one measurement's outcome in the order the
    # modes were listed (checked on the pinned tree); PassiveSimulator reports them in increasing mode
    # order whatever the listing, a labelling convention C03 does not fix - so for it the modes are listed
    # in increasing order, for the others in a seeded (often non-monotone) order
    if sim == "PassiveSimulator" or rng.chance(0.35):
        A, B = sorted(A), sorted(B)
    if sim != "PassiveSimulator" and rng.chance(0.5):
        B = rest[:]  # measure *every* remaining mode in the second measurement, in listing order
        rng.shuffle(B)
    g = gen.G(rng, sim, {"adaptive": False})
    g.active = sorted(rest)
    U = []
    for _ in range(rng.randrange(0, 3)):
        if sim == "FermionicPureFockSimulator":
            U.append(gen.passive_gate(g, consecutive=True, allow_allmodes=False))
        elif sim == "PureFockSimulator" and rng.chance(0.3):
            U.append({"type": "Kerr", "modes": g.pick_modes(1), "params": {"xi": gen._angle(rng)}})
        else:
            U.append(gen.passive_gate(g, allow_allmodes=False))
    if sim == "FermionicPureFockSimulator":
        # consecutive refers to positions among the *active* modes; keep U only if it is consecutive in both programs
        U = [u for u in U if _consecutive_in(u["modes"], sorted(rest)) and _consecutive_in(u["modes"], list(range(d)))]
    pnm = lambda m: {"type": "ParticleNumberMeasurement", "modes": list(m), "params": {}}  # noqa: E731
    seq = dict(subject, program=prog + ([pnm(A)] if A else []) + U + [pnm(B)], shots=None)
    joint = dict(subject, program=prog + copy.deepcopy(U) + [pnm(sorted(A + B))], shots=None)
    return seq, joint, A, B


def _consecutive_in(modes, active):
    pos = [active.index(m) for m in modes]
    return pos == list(range(pos[0], pos[0] + len(pos)))


def run_index(seed, idx, tier):
    rng = Rng(seed, "c03", idx)
    sim = rng.weighted(SIMS)
    out = []
    subject = gen.finalise(gen.gen_subject(rng.randrange(2**62), sim, shots=rng.randrange(1, 17)))
    subject["build"] = rng.weighted([("list", 6), ("context-all", 2), ("context-empty", 2)])

    def emit(sc):
        rec = judge(sc)
        if rec["status"] == "violation":
            rec["scenario"] = shrink(sc, rec["sig"])
        if idx % 101 == 0 and sc["kind"] == "scripted" and not any(r.get("sample") for r in out):
            rec["sample"] = sc
        out.append(rec)
        return rec

    n_scripts = 4 if tier == "quick" else 6
    mixes = [MIXES[0]] + [rng.pick(MIXES[1:]) for _ in range(n_scripts - 1)]
    first = None
    for j, mix in enumerate(mixes):
        sc = {"check": "c03", "kind": "scripted", "subject": subject, "script": {"seed": rng.randrange(2**31), "mix": mix, "per_draw": rng.chance(0.7)}}
        rec = emit(sc)
        if j == 0:
            first = rec
            if rec["status"] == "discard":
                break
    if first["status"] != "discard":
        if supports_shots_none(subject):
            emit({"check": "c03", "kind": "exact", "subject": dict(subject, shots=None)})
            if sim in ("PureFockSimulator", "FockSimulator", "FermionicPureFockSimulator") and not has_active_gates(subject) and not any(i["type"] == "PostSelectPhotons" for i in subject["program"]):
                emit({"check": "c03", "kind": "seamlink", "subject": subject, "script": {"seed": rng.randrange(2**31), "mix": rng.pick(MIXES), "per_draw": True}})
    if sim in ("PureFockSimulator", "PassiveSimulator", "FermionicPureFockSimulator"):
        seq, joint, A, B = gen_seqjoint(rng, sim)
        emit({"check": "c03", "kind": "seqjoint", "subject": seq, "joint": joint, "A": A, "B": B})
    return out


def replay(sc):
    return judge(sc)


def shrink(sc, sig, max_runs=80):
    runs = [0]

    def still(c):
        runs[0] += 1
        if runs[0] > max_runs:
            return False
        try:
            r = judge(c)
        except Exception:  # noqa: BLE001
            return False
        return r["status"] == "violation" and r.get("sig") == sig

    cur = copy.deepcopy(sc)
    if cur["kind"] == "seqjoint":
        return cur
    prog = cur["subject"]["program"]
    i = len(prog) - 1
    while i >= 1:
        cand = copy.deepcopy(cur)
        del cand["subject"]["program"][i]
        if _still_wellformed(cand["subject"]) and still(cand):
            cur = cand
        i -= 1
    for j, ins_ in enumerate(cur["subject"]["program"]):
        if ins_.get("when"):
            cand = copy.deepcopy(cur)
            cand["subject"]["program"][j].pop("when")
            if still(cand):
                cur = cand
    if cur["subject"].get("shots") not in (None, 1):
        for s in (1, 2, 3):
            if s < cur["subject"]["shots"]:
                cand = copy.deepcopy(cur)
                cand["subject"]["shots"] = s
                if still(cand):
                    cur = cand
                    break
    if "script" in cur and len(cur["script"].get("mix", [])) > 1:
        for m in cur["script"]["mix"]:
            cand = copy.deepcopy(cur)
            cand["script"]["mix"] = [m]
            if still(cand):
                cur = cand
                break
    return cur


def _still_wellformed(subject):
    """After dropping an instruction: outcome indices used by later expressions must still exist."""
    n_out = 0
    active = list(range(subject["d"]))
    for i in subject["program"]:
        modes = i["modes"] if i.get("modes") is not None else list(active)
        if any(m not in active for m in modes):
            return False
        txt = repr(i.get("when")) + repr(i.get("params"))
        import re

        for m in re.findall(r"x\[(-?\d+)\]", txt):
            k = int(m)
            if (k >= 0 and k >= n_out) or (k < 0 and n_out == 0):
                return False
        for m in re.findall(r"'i': (\d+)", txt):
            if int(m) >= n_out:
                return False
        if outcomes.is_measurement(i["type"]):
            if i["type"] not in ("PostSelectPhotons", "ImperfectPostSelectPhotons"):
                n_out += len(modes) * (2 if i["type"] in ("HeterodyneMeasurement", "GeneraldyneMeasurement") else 1)
            for m in modes:
                active.remove(m)
    if not any(outcomes.is_measurement(i["type"]) and i["type"] not in ("PostSelectPhotons", "ImperfectPostSelectPhotons") for i in subject["program"]):
        return False  # every generated subject ends in a measurement: a minimised one must stay a program the checks could have generated
    return True
