"""Warm numba's on-disk cache by running a few fault-free subjects of every simulator."""

import sys
import time
import warnings


def main():
    from . import common

    common.quiet_env()
    warnings.simplefilter("ignore")
    import piquasso  # noqa: F401
    from . import gen, spec

    t0 = time.time()
    ok = bad = 0
    for s in range(12):
        for sim in gen.ALL_SIMS:
            sub = gen.finalise(gen.gen_subject(s, sim))
            try:
                r = spec.build_simulator(sub).execute(spec.build_program(sub["program"]), shots=sub["shots"])
                r.samples
                ok += 1
            except Exception:  # noqa: BLE001 - judged by the checks, not here
                bad += 1
    print("warm: %d subjects ran, %d raised, %.0fs" % (ok, bad, time.time() - t0))
    return 0


if __name__ == "__main__":
    sys.exit(main())
