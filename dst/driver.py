"""Driver: fans a check out over fresh interpreters, aggregates, writes evidence.

  python -m dst.driver run <engine> [--tier quick|thorough] [--seed N] [--workers W]
  python -m dst.driver replay <file>

Exit status: 0 = property held on everything explored (KNOWN-FINDING lines allowed);
1 = at least one `VIOLATION property=<id> replay=<path>` line was printed;
2 = harness error / incomplete run (never printed as a verdict, never 0).
"""

import argparse
import importlib
import json
import os
import subprocess
import sys
import time

from . import common
from .common import VERIF, OUT, EVIDENCE, jdump, jload

PY = sys.executable


def merge_counters(dst, src):
    for k, v in src.items():
        if isinstance(v, dict):
            merge_counters(dst.setdefault(k, {}), v)
        elif isinstance(v, (int, float)):
            dst[k] = dst.get(k, 0) + v


def merge_max(dst, src):
    for k, v in src.items():
        dst[k] = max(dst.get(k, v), v)


def merge_min(dst, src):
    for k, v in src.items():
        dst[k] = min(dst.get(k, v), v)


def load_known():
    p = os.path.join(VERIF, "known_findings.json")
    if not os.path.exists(p):
        return []
    return jload(p).get("findings", [])


def match_known(entry, rec):
    if entry.get("status") != "known":
        return False
    if entry.get("property") != rec.get("property"):
        return False
    if entry.get("signature") != rec.get("sig"):
        return False
    facts = rec.get("facts", {})
    for k, want in entry.get("match", {}).items():
        have = facts.get(k)
        if isinstance(want, list):
            if have not in want:
                return False
        elif have != want:
            return False
    return True


def run(engine_name, tier, seed, workers, only_selftest=False):
    common.quiet_env()
    engine = importlib.import_module("dst." + engine_name)
    prop = engine.PROPERTY
    plan = engine.plan(tier)
    count, budget = plan["families"], plan["budget_s"]
    workers = min(workers, count)
    os.makedirs(os.path.join(OUT, "work"), exist_ok=True)
    os.makedirs(os.path.join(OUT, "replays"), exist_ok=True)
    t0 = time.time()
    env = dict(os.environ)
    env["PYTHONHASHSEED"] = "0"
    # 16 interpreters x (numba pool + 4*hardware_concurrency OpenMP team per permanent call)
    # oversubscribe the box badly when idle threads spin; none of this changes results.
    env.update({"OMP_WAIT_POLICY": "PASSIVE", "GOMP_SPINCOUNT": "0", "OPENBLAS_NUM_THREADS": "1", "MKL_NUM_THREADS": "1", "OMP_NUM_THREADS": "1", "TF_NUM_INTRAOP_THREADS": "1", "TF_NUM_INTEROP_THREADS": "1"})
    env.update(getattr(engine, "ENV", {"NUMBA_NUM_THREADS": "1", "OMP_THREAD_LIMIT": "4"}))
    env["PYTHONPATH"] = VERIF + os.pathsep + env.get("PYTHONPATH", "")
    pre = getattr(engine, "prepare", None)
    pre_info = pre(tier) if pre else {}
    procs = []
    for k in range(workers):
        out = os.path.join(OUT, "work", "%s.%d.jsonl" % (engine_name, k))
        if os.path.exists(out):
            os.remove(out)
        cmd = [PY, "-m", "dst.worker", engine_name, str(seed), str(k), str(workers), str(count), str(budget), out, tier]
        log = open(out + ".log", "w")
        procs.append((subprocess.Popen(cmd, cwd=VERIF, env=env, stdout=log, stderr=subprocess.STDOUT), out, log))
    hard = budget + plan.get("grace_s", 600)
    killed = 0
    for p, out, log in procs:
        left = max(1.0, hard - (time.time() - t0))
        try:
            p.wait(timeout=left)
        except subprocess.TimeoutExpired:
            p.kill()
            p.wait()
            killed += 1
        log.close()
    # ---- aggregate
    known = load_known()
    counters, maxima, minima = {}, {}, {}
    sets = {}
    digests_nontrivial = set()
    evaluations = 0
    statuses = {}
    samples = []
    violations = []
    known_hits = {}
    harness_errors = []
    done_lines = 0
    incomplete = 0
    families = 0
    for p, out, log in procs:
        if not os.path.exists(out):
            continue
        with open(out) as f:
            for line in f:
                try:
                    rec = json.loads(line)
                except ValueError:
                    continue
                st = rec.get("status")
                if st == "done":
                    done_lines += 1
                    families += rec.get("families", 0)
                    if not rec.get("complete", False):
                        incomplete += 1
                    continue
                statuses[st] = statuses.get(st, 0) + 1
                if st == "harness_error":
                    harness_errors.append(rec)
                    continue
                evaluations += rec.get("evaluations", 1)
                merge_counters(counters, rec.get("counters", {}))
                merge_max(maxima, rec.get("max", {}))
                merge_min(minima, rec.get("min", {}))
                for name, items in rec.get("sets", {}).items():
                    sets.setdefault(name, set()).update(items)
                for d in rec.get("nontrivial_digests", []):
                    digests_nontrivial.add(d)
                if rec.get("nontrivial") and rec.get("digest"):
                    digests_nontrivial.add(rec["digest"])
                if rec.get("sample") is not None and len(samples) < 3:
                    samples.append(rec["sample"])
                if st == "violation":
                    rec["property"] = prop
                    hit = next((e for e in known if match_known(e, rec)), None)
                    if hit is not None:
                        known_hits.setdefault(hit["id"], [hit, 0, rec])
                        known_hits[hit["id"]][1] += 1
                    else:
                        violations.append(rec)
    wall = time.time() - t0
    # ---- report
    for kid, (entry, n, rec) in sorted(known_hits.items()):
        print("KNOWN-FINDING: property=%s %s [%s; seen %d times this run]" % (prop, entry["what"], kid, n))
    seen_sigs = {}
    for rec in violations:
        key = (rec.get("sig"), json.dumps(rec.get("facts", {}), sort_keys=True))
        if key in seen_sigs:
            seen_sigs[key] += 1
            continue
        seen_sigs[key] = 1
        path = os.path.join(OUT, "replays", "%s-%d-%s-%d.json" % (engine_name, seed, rec.get("idx"), len(seen_sigs)))
        jdump({"engine": engine_name, "property": prop, "seed": seed, "idx": rec.get("idx"), "expect": {"signature": rec.get("sig")}, "detail": rec.get("detail"), "facts": rec.get("facts", {}), "scenario": rec.get("scenario")}, path)
        print("VIOLATION property=%s replay=%s" % (prop, path))
        print("  signature: %s" % rec.get("sig"))
        print("  detail: %s" % str(rec.get("detail"))[:600])
    for rec in harness_errors[:5]:
        print("HARNESS-ERROR idx=%s: %s" % (rec.get("idx"), str(rec.get("detail"))[-800:]))
    coverage = {
        "evaluations": evaluations,
        "distinct_nontrivial": len(digests_nontrivial),
        "rule": engine.RULE,
        "samples": samples,
        "families": families,
        "statuses": statuses,
        "counters": counters,
        "max": maxima,
        "min": minima,
        "distinct": {k: len(v) for k, v in sets.items()},
        "runs_per_hour": int(evaluations / max(wall, 1e-9) * 3600),
        "seeds": {"base": seed, "families": families, "derivation": "sha256(seed, engine, family index, label)"},
        "harness_errors": len(harness_errors),
        "workers": workers,
        "workers_killed": killed,
        "workers_out_of_budget": incomplete,
        "known_findings_seen": {k: v[1] for k, v in known_hits.items()},
        "simulated_time": "not applicable: nothing in piquasso reads a clock; progress is counted in scheduler steps",
        "real_components": engine.REAL,
        "stubbed_components": engine.STUBBED,
    }
    coverage.update(pre_info)
    # determinism of the harness itself: a few families of this run again, twice each, in two fresh
    # interpreters with different PYTHONHASHSEED / thread limits; every digest list must coincide
    selftest_bad = 0
    if os.environ.get("VERIF_SELFTEST", "1") != "0":
        from . import selftest

        n_self = 4 if tier == "quick" else 24
        idxs = sorted({(seed * 7 + 13 * k) % max(1, count) for k in range(n_self)})
        fam, comps, mism = selftest.compare(engine_name, seed, tier, idxs)
        selftest_bad = len(mism)
        coverage["determinism_selftest"] = {"families": fam, "digest_list_comparisons": comps, "mismatches": selftest_bad, "how": "same family twice per interpreter, two interpreters (PYTHONHASHSEED 0 / 424242, OMP_THREAD_LIMIT changed)"}
        for m in mism[:3]:
            print("HARNESS-ERROR nondeterministic replay of family %s: %s" % (m.get("idx"), json.dumps(m)[:300]))
    post = getattr(engine, "evidence_extra", None)
    if post:
        coverage.update(post(coverage, sets))
    ev = {
        "property_id": prop,
        "tier": tier,
        "seed": seed,
        "level": engine.LEVEL,
        "coverage": coverage,
        "assumptions": engine.ASSUMPTIONS,
        "wall_s": round(wall, 2),
        "violations": len(seen_sigs),
    }
    jdump(ev, os.path.join(EVIDENCE, "%s.json" % prop))
    print("%s %s: %d evaluations in %d families, %d distinct non-trivial digests, %d violations, %d known, %d harness errors, %.0fs" % (prop, tier, evaluations, families, len(digests_nontrivial), len(seen_sigs), len(known_hits), len(harness_errors), wall))
    if seen_sigs:
        return 1
    if harness_errors or killed or done_lines < workers or evaluations == 0 or selftest_bad:
        print("INCOMPLETE: harness errors=%d killed=%d finished workers=%d/%d" % (len(harness_errors), killed, done_lines, workers))
        return 2
    return 0


def replay(path):
    common.quiet_env()
    common.use_repo_tree()
    import warnings

    warnings.simplefilter("ignore")
    doc = jload(path)
    engine = importlib.import_module("dst." + doc["engine"])
    engine.setup("replay")
    rec = engine.replay(doc["scenario"])
    want = doc.get("expect", {}).get("signature")
    print("replay: status=%s signature=%s digest=%s" % (rec.get("status"), rec.get("sig"), rec.get("digest")))
    if rec.get("detail"):
        print("  detail: %s" % str(rec["detail"])[:800])
    if rec.get("status") == "violation":
        print("VIOLATION property=%s replay=%s" % (doc["property"], path))
        if want and rec.get("sig") != want:
            print("  note: signature differs from the recorded one (%s)" % want)
        return 1
    return 0


def main():
    ap = argparse.ArgumentParser()
    sub = ap.add_subparsers(dest="cmd", required=True)
    r = sub.add_parser("run")
    r.add_argument("engine")
    r.add_argument("--tier", default=os.environ.get("VERIF_TIER", "quick"))
    r.add_argument("--seed", type=int, default=int(os.environ.get("VERIF_SEED", "20260923")))
    r.add_argument("--workers", type=int, default=int(os.environ.get("VERIF_WORKERS", "16")))
    p = sub.add_parser("replay")
    p.add_argument("file")
    a = ap.parse_args()
    if a.cmd == "run":
        return run(a.engine, a.tier, a.seed, a.workers)
    return replay(a.file)


if __name__ == "__main__":
    sys.exit(main())
