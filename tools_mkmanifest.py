import json
NA = {
 "C01": "agreement of simulators on photon statistics is a deterministic function of (program, hbar, cutoff): no schedule, clock, fault or interleaving for a simulator to own (differential testing territory)",
 "C02": "the Born rule is a statement about the measure over seeds; owning the RNG makes one draw sequence repeatable but gives no distributional verdict (statistical testing / exhaustive path enumeration are other techniques)",
 "C04": "kernels equal their combinatorial definitions: pure functions of (matrix, multiplicities, dtype); the only schedule-dependent aspect, the work partition, is covered under C11",
 "C05": "passive-state probability interfaces vs a unitary dilation: deterministic functions of their arguments",
 "C06": "Fock-basis enumeration/index bijection: finite combinatorial identity of pure functions",
 "C07": "gates are symplectic and act as documented: algebraic identity for all real parameters, pure functions",
 "C08": "every reachable state is physical: invariant of a deterministic trace (function of program and outcome tuple); no fault or schedule dimension",
 "C09": "connector independence: configuration x input comparison of deterministic functions",
 "C10": "automatic derivatives: numerical identity at parameter points, pure functions",
 "C14": "hbar invariance and representation round trips: algebraic identities of pure functions",
 "C15": "decompositions reconstruct their input: pure functions of a matrix",
 "C16": "relabelling / commuting disjoint gates: the reordering is applied by the test to its input, the system never reorders anything itself (metamorphic testing)",
 "C17": "fermionic simulators agree: deterministic functions of (program, input)",
 "C18": "program construction round trips: deterministic text/dict/object transformations; the one file write carries no durability claim",
 "C19": "dual-rail translation preserves statistics: deterministic translation plus exact probabilities",
 "C20": "expression safety and meaning: a pure function of a string and a tuple",
}
checks = json.load(open('/verif/manifest_checks.json'))
m = {
 "version": 1,
 "setup_cmd": "./setup.sh",
 "hooks": {"guard": "PIQUASSO_VERIF", "enable": "no hook is needed: every seam already exists in the shipped code (class-level _instruction_map, dask scheduler config, module attributes for random/np.random/os.urandom, assignable Config.rng, sys.settrace); checks import /repo's working tree through /venv's editable install and compile /repo/src kernels themselves", "baseline_off_cmd": "cd /repo && /venv/bin/python -m pytest -ra -q -p no:cacheprovider --timeout=900 --continue-on-collection-errors", "source_commits": [], "add_only": True},
 "engines": [
  {"name": "crashpoints", "path": "dst/c12.py", "serves_properties": ["C12"], "kind_free_text": "seeded histories on caller-owned objects with callee-failure injection at every API-boundary call (sys.settrace), snapshot and re-execution oracles, delta-debugging shrinker"},
  {"name": "worlds", "path": "dst/c11.py", "serves_properties": ["C11"], "kind_free_text": "cooperative baton scheduler (dst/sched.py) behind dask.config.set(scheduler=...), RNG seam in record mode with yield at every draw, interferer operations, numba thread control, permanent kernels compiled from /repo/src against a simulated OpenMP runtime (native/sim_omp.cpp, dst/native.py), partition/tiling oracles"},
  {"name": "outcomes", "path": "dst/outcomes.py", "serves_properties": ["C03", "C13"], "kind_free_text": "RNG seam in script mode (numpy default_rng / random module / Random methods patched for the duration of a scenario), step wrappers via a subclass _instruction_map, sequential branch-tree reference model"},
 ],
 "checks": checks,
 "not_applicable": [{"property_id": k, "reason": v} for k, v in sorted(NA.items())],
 "notes": "Technique family: deterministic simulation with fault injection. See DESIGN.md. ./check <engine> --tier quick|thorough ; ./check replay <file>.",
}
json.dump(m, open('/verif/MANIFEST.json','w'), indent=1)
