#!/bin/sh
# Sensitivity self-test: every /verif/mutants/*.diff must make its property's quick check exit 1.
# Applies each patch to /repo, runs the check, reverts.  Never run two of these at once.
cd /verif || exit 2
OUT=/verif/out/mutants.txt; : > $OUT
/venv/bin/python - <<'PY' > /tmp/mutant_list.txt
import json
for m in json.load(open('/verif/mutants/index.json')): print(m["name"], m["property"].lower())
PY
while read NAME ENGINE; do
  [ -n "${1:-}" ] && case "$NAME" in $1*) ;; *) continue;; esac
  tools/check_seeded.sh "$NAME" "$ENGINE" 2>&1 | grep -v "conda\|WARN" >> $OUT
done < /tmp/mutant_list.txt
grep -c "exit=1" $OUT; grep -v "exit=1" $OUT
