#!/bin/sh
# usage: rerun_failed.sh <worktree> <id> - re-run, alone, the stable tests that did not pass in the full-suite run (timeouts under load)
WT="$1"; ID="$2"; ART=/tmp/wtart_$ID
cd "$WT" || exit 2
TESTS=$(grep "FAILED$\|absent$" /verif/seeded/$ID/suite.txt | awk '{print $1}' | sed 's/\./\//; s/\.\([a-z_0-9]*\)::/\/\1.py::/; s/^\(benchmarks\|tests\)\//\1\//' )
mkdir -p $ART; for f in _wtboot demo_*.py NOTES.md; do [ -e "$f" ] && mv "$f" $ART/; done
for T in $(grep "FAILED$\|absent$" /verif/seeded/$ID/suite.txt | awk '{print $1}'); do
  MOD=$(echo "$T" | sed 's/::.*//' | tr '.' '/').py; NAME=$(echo "$T" | sed 's/.*:://')
  OMP_WAIT_POLICY=PASSIVE PYTHONPATH=$ART/_wtboot timeout 1500 /venv/bin/python -m pytest -q -p no:cacheprovider --timeout=1400 "$MOD::$NAME" > /tmp/rerun_$ID.log 2>&1
  echo "rerun alone: $T -> $(tail -1 /tmp/rerun_$ID.log)" >> /verif/seeded/$ID/suite.txt
done
for f in $ART/_wtboot $ART/demo_*.py $ART/NOTES.md; do [ -e "$f" ] && mv "$f" "$WT"/; done
tail -3 /verif/seeded/$ID/suite.txt
