#!/bin/sh
# usage: mkworktree.sh <dir>   - scratch git worktree of /repo HEAD, runnable with /venv's interpreter
# Run code against it with:  PYTHONPATH=<dir>/_wtboot /venv/bin/python ...   (cwd = <dir>)
set -e
D="$1"
git -C /repo worktree add --detach "$D" HEAD >/dev/null 2>&1
mkdir -p "$D/_wtboot"
cat > "$D/_wtboot/sitecustomize.py" <<EOF
import sys
sys.meta_path[:] = [f for f in sys.meta_path if "ScikitBuild" not in type(f).__name__ and "editable" not in type(f).__module__.lower()]
sys.path.insert(0, "$D")
EOF
SP=/venv/lib/python3.12/site-packages/piquasso
for f in $(cd $SP && find . -name "*.so"); do mkdir -p "$D/piquasso/$(dirname $f)"; cp "$SP/$f" "$D/piquasso/$f"; done
echo "$D"
