#!/bin/sh
# usage: check_seeded.sh <id> <engine> [more engines]  - apply /verif/seeded/<id>/patch.diff to /repo, run quick checks, undo
ID="$1"; shift
P=/verif/seeded/$ID/patch.diff
[ -f "$P" ] || P=/verif/mutants/$ID.diff
cd /verif || exit 2
git -C /repo apply "$P" || { echo "patch does not apply"; exit 2; }
for E in "$@"; do
  VERIF_SELFTEST=0 ./check "$E" --tier quick > /tmp/check_seeded_$ID.$E.log 2>&1; RC=$?
  echo "$ID $E exit=$RC $(grep -c '^VIOLATION' /tmp/check_seeded_$ID.$E.log) violation lines; first: $(grep -m1 -A1 '^VIOLATION' /tmp/check_seeded_$ID.$E.log | tail -1 | cut -c1-200)"
done
git -C /repo checkout -- . ; git -C /repo status --short | head -3
