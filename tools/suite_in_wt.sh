#!/bin/sh
# usage: suite_in_wt.sh <worktree> <id>  - full pinned suite in the worktree (with the seeded change applied there), compared with BASELINE
WT="$1"; ID="$2"
cd "$WT" || exit 2
PYTHONPATH=$WT/_wtboot /venv/bin/python -m pytest -q -p no:cacheprovider --timeout=900 --continue-on-collection-errors -n 6 --junitxml=/tmp/suite_$ID.xml > /tmp/suite_$ID.log 2>&1
/venv/bin/python /verif/tools/cmpbase.py /tmp/suite_$ID.xml > /verif/seeded/$ID/suite.txt 2>&1
tail -3 /verif/seeded/$ID/suite.txt
