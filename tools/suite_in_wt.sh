#!/bin/sh
# usage: suite_in_wt.sh <worktree> <id>  - full pinned suite in the worktree (seeded change applied there), compared with BASELINE.
# Harness artefacts (boot dir, demo, notes) are moved out of the tree first: tests/test_copyright.py scans every file.
WT="$1"; ID="$2"
ART=/tmp/wtart_$ID
cd "$WT" || exit 2
mkdir -p $ART
for f in _wtboot demo_*.py NOTES.md; do [ -e "$f" ] && mv "$f" $ART/; done
OMP_WAIT_POLICY=PASSIVE PYTHONPATH=$ART/_wtboot /venv/bin/python -m pytest -q -p no:cacheprovider --timeout=900 --continue-on-collection-errors -n 6 --junitxml=/tmp/suite_$ID.xml > /tmp/suite_$ID.log 2>&1
for f in $ART/_wtboot $ART/demo_*.py $ART/NOTES.md; do [ -e "$f" ] && mv "$f" "$WT"/; done
/venv/bin/python /verif/tools/cmpbase.py /tmp/suite_$ID.xml > /verif/seeded/$ID/suite.txt 2>&1
tail -3 /verif/seeded/$ID/suite.txt
