import json, sys, xml.etree.ElementTree as ET
b=json.load(open('/root/.vp/BASELINE.json'))
stable=set(b['stable_pass'])
t=ET.parse(sys.argv[1]); passed=set(); failed=set()
for tc in t.iter('testcase'):
    name = tc.get('classname')+'::'+tc.get('name')
    bad = any(c.tag in ('failure','error') for c in tc)
    skipped = any(c.tag=='skipped' for c in tc)
    if bad: failed.add(name)
    elif not skipped: passed.add(name)
print("passed", len(passed), "failed", len(failed))
missing = stable - passed
print("stable tests not passing:", len(missing))
for m in sorted(missing)[:40]: print("  ", m, "FAILED" if m in failed else "absent")
