#!/bin/sh
for ID in "$@"; do
  [ -f /verif/seeded/$ID/suite.txt ] && grep -q "stable tests not passing" /verif/seeded/$ID/suite.txt && continue
  /verif/tools/suite_in_wt.sh /tmp/wt_$ID $ID
done
