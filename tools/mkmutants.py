"""Generate /verif/mutants/<name>.diff from (file, old, new) edits against /repo HEAD (sensitivity self-test)."""
import subprocess, os, sys, json
R = "/repo"
M = [
 # ---- C11
 ("c11-per-shot-seed-const-passive", "C11", "piquasso/_simulators/passive/sampling.py", "            compute_list.append(delayed_func(seed=seed + idx))", "            compute_list.append(delayed_func(seed=seed))"),
 ("c11-per-shot-seed-dask-offset-gaussian", "C11", "piquasso/_simulators/gaussian/simulation_steps.py", "            compute_list.append(delayed_func(seed=seed + idx))", "            compute_list.append(delayed_func(seed=seed + idx + 1))"),
 ("c11-samples-shuffle-global", "C11", "piquasso/api/result.py", "        r = random.Random(self._config.seed_sequence)\n        r.shuffle(_samples)", "        random.shuffle(_samples)"),
 ("c11-offset-max-fixup-removed", "C11", "src/permanent.cpp", "        if (job_idx == concurrency - 1)\n        {\n            offset_max = idx_max - 1;\n        }", "        (void)0;"),
 ("c11-laplace-offset-max-fixup-removed", "C11", "src/permanent_laplace.cpp", "        if (job_idx == concurrency - 1)\n            offset_max = idx_max - 1;", "        (void)0;"),
 ("c11-shared-accumulator", "C11", "src/permanent.cpp", "        TComplex &addend_loc = thread_results[static_cast<unsigned int>(job_idx)];", "        TComplex &addend_loc = thread_results[static_cast<unsigned int>(omp_get_thread_num())];"),
 ("c11-global-random-again", "C11", "piquasso/_utils.py", "    samples = (rng or random).choices(", "    samples = random.choices("),
 ("c11-uniform-loss-dask-again", "C11", "piquasso/_simulators/passive/simulation_steps.py", "        sequential_config.use_dask = False\n", "        pass\n"),
 ("c11-seed-zero-again", "C11", "piquasso/api/config.py", "            seed_sequence\n            if seed_sequence is not None\n            else int.from_bytes(os.urandom(8), byteorder=\"big\")", "            seed_sequence or int.from_bytes(os.urandom(8), byteorder=\"big\")"),
 # ---- C12
 ("c12-modes-not-restored-on-error", "C12", "piquasso/api/simulator.py", "            finally:\n                # NOTE: The modes specified by the user are restored even if the\n                # execution of the instruction raises.\n                instruction._modes = original_modes", "            except ValueError:\n                instruction._modes = original_modes\n                raise\n            instruction._modes = original_modes"),
 ("c12-params-not-unresolved-on-error", "C12", "piquasso/api/simulator.py", "            finally:\n                # NOTE: The parameters specified by the user are restored even if the\n                # validation or the simulation step raises.\n                if not is_instruction_resolved:\n                    instruction._unresolve_params()", "            except InvalidParameter:\n                raise\n            if not is_instruction_resolved:\n                instruction._unresolve_params()"),
 ("c12-initial-state-not-copied", "C12", "piquasso/api/simulator.py", "            state = initial_state.copy()", "            state = initial_state"),
 # (keeping the caller's Config in the simulator alone is an equivalent mutant for C12: piquasso only ever writes to the
 #  copies held by states; together with State.__init__ not copying either, PostSelectPhotons / number-state preparations
 #  of the passive simulator write the caller's Config.cutoff)
 ("c12-config-never-copied", "C12", ["piquasso/api/simulator.py", "piquasso/api/state.py"], ["        self.config = config.copy() if config is not None else self._config_class()", "        self._config = config.copy() if config is not None else self._config_class()"], ["        self.config = config if config is not None else self._config_class()", "        self._config = config if config is not None else self._config_class()"]),
 ("c12-pfaffian-no-copy", "C12", "piquasso/_simulators/connectors/connector.py", "        return pfaffian(self.fallback_np.array(matrix))", "        return pfaffian(matrix)"),
 ("c12-str-param-expression-again", "C12", "piquasso/api/instruction.py", "        self._params.update(self._original_unresolved_params)", "        self._params.update(self._unresolved_params)"),
 ("c12-shallow-copy", "C12", "piquasso/core/_mixins.py", "        return copy.deepcopy(self)", "        return copy.copy(self)"),
 # ---- C03
 ("c03-shots-round-up", "C03", "piquasso/api/simulator.py", "                    int(branch.frequency * shots) if shots is not None else None", "                    round(branch.frequency * shots + 0.5) if shots is not None else None"),
 ("c03-frequency-not-multiplied", "C03", "piquasso/api/simulator.py", "                subbranch.frequency *= branch.frequency", "                pass"),
 ("c03-outcomes-prepended", "C03", "piquasso/api/simulator.py", "                subbranch.outcome = tuple([*branch.outcome, *subbranch.outcome])", "                subbranch.outcome = tuple([*subbranch.outcome, *branch.outcome])"),
 ("c03-delete-modes-original-index", "C13", "piquasso/api/simulator.py", "            if mode not in Simulator._remap_modes_inverse(active_modes, modes)", "            if mode not in modes"),
 ("c03-get-counts-overwrite-again", "C03", "piquasso/api/result.py", "            ret[branch.outcome] = ret.get(branch.outcome, 0) + int(\n                branch.frequency * shots\n            )", "            ret[branch.outcome] = int(branch.frequency * shots)"),
 ("c03-projection-not-normalised", "C03", "piquasso/_simulators/fock/pure/simulation_steps/__init__.py", "    return np.sqrt(1 / probability_map[sample])", "    return 1.0"),
 # ---- C13
 ("c13-mode-range-off-by-one", "C13", "piquasso/api/simulator.py", "                if mode < 0 or mode >= d:", "                if mode < 0 or mode > d:"),
 ("c13-preparation-order-unchecked", "C13", "piquasso/api/simulator.py", "        self._validate_preparations_at_beginning(instructions)\n", "        pass\n"),
 ("c13-mid-circuit-whitelist-ignored", "C13", "piquasso/api/simulator.py", "                and index != len(instructions) - 1\n                and not isinstance(", "                and index != len(instructions) - 1\n                and False\n                and not isinstance("),
 ("c13-projection-cutoff-off-by-one", "C13", "piquasso/_simulators/fock/pure/simulation_steps/utils.py", "    config_copy.cutoff -= sum(subspace_basis)", "    config_copy.cutoff -= sum(subspace_basis) + (1 if sum(subspace_basis) == config_copy.cutoff - 2 else 0)"),
 ("c13-initial-state-width-unchecked", "C13", "piquasso/api/simulator.py", "        if initial_state.d != d:", "        if False:"),
 ("c13-shots-bool-or-float-accepted", "C13", "piquasso/api/simulator.py", "        is_shots_positive_integer = isinstance(shots, int) and shots > 0", "        is_shots_positive_integer = isinstance(shots, (int, float)) and shots > 0"),
 ("c13-upfront-validation-dropped", "C13", "piquasso/api/simulator.py", "        self._validate_execution(instructions, shots, d)\n", "        pass\n"),
]
os.makedirs("/verif/mutants", exist_ok=True)
index = []
for name, prop, f, old, new in M:
    fs, olds, news = (f, old, new) if isinstance(f, list) else ([f], [old], [new])
    ok = True
    for f1, o1, n1 in zip(fs, olds, news):
        path = os.path.join(R, f1)
        s = open(path).read()
        if s.count(o1) != 1:
            print("SKIP (pattern count %d): %s" % (s.count(o1), name)); ok = False; break
        open(path, "w").write(s.replace(o1, n1))
    d = subprocess.run(["git", "-C", R, "diff"], capture_output=True, text=True).stdout
    subprocess.run(["git", "-C", R, "checkout", "--", "."], check=True)
    if not ok:
        continue
    f = ",".join(fs)
    open("/verif/mutants/%s.diff" % name, "w").write(d)
    index.append({"name": name, "property": prop, "file": f})
json.dump(index, open("/verif/mutants/index.json", "w"), indent=1)
print(len(index), "mutants written")
