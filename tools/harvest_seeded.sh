#!/bin/sh
# usage: harvest_seeded.sh <worktree> <id> <property>   e.g. /tmp/wt_c11b c11b C11
# 1. saves patch.diff + demo + notes under /verif/seeded/<id>/
# 2. confirms in the worktree that the demo fails with the change and passes without it
set -u
WT="$1"; ID="$2"; PROP="$3"
OUT=/verif/seeded/$ID
mkdir -p "$OUT"
cd "$WT" || exit 2
git diff > "$OUT/patch.diff"
DEMO=$(ls demo_*.py 2>/dev/null | head -1)
[ -n "$DEMO" ] && cp "$DEMO" "$OUT/"
[ -f NOTES.md ] && cp NOTES.md "$OUT/NOTES.md"
echo "patch: $(grep -c '^[-+][^-+]' "$OUT/patch.diff") changed lines in: $(git diff --stat | tail -1)"
if [ -n "$DEMO" ]; then
  PYTHONPATH=$WT/_wtboot timeout 600 /venv/bin/python "$DEMO" >/tmp/harvest_with.log 2>&1; WITH=$?
  git apply -R "$OUT/patch.diff"
  PYTHONPATH=$WT/_wtboot timeout 600 /venv/bin/python "$DEMO" >/tmp/harvest_without.log 2>&1; WITHOUT=$?
  git apply "$OUT/patch.diff"
  echo "demo with change: exit $WITH ; without: exit $WITHOUT"
  tail -2 /tmp/harvest_with.log
else
  echo "no demo found"; WITH=-1; WITHOUT=-1
fi
echo "{\"id\": \"$ID\", \"property\": \"$PROP\", \"demo\": \"$DEMO\", \"demo_exit_with_change\": $WITH, \"demo_exit_without_change\": $WITHOUT}" > "$OUT/confirm.json"
