#!/bin/sh
# usage: check_seeded_wt.sh <worktree> <id> <engine> [more engines]
# Like check_seeded.sh but against a scratch worktree of /repo (VERIF_REPO), so that /repo itself stays free
# (e.g. while a `vp run` uses it).  The worktree must have been made by tools/mkworktree.sh and warmed once:
#   VERIF_REPO=<worktree> /venv/bin/python -m dst.warm
WT="$1"; ID="$2"; shift; shift
P=/verif/seeded/$ID/patch.diff
[ -f "$P" ] || P=/verif/mutants/$ID.diff
cd /verif || exit 2
git -C "$WT" apply "$P" || { echo "$ID patch does not apply"; exit 2; }
for E in "$@"; do
  VERIF_REPO="$WT" VERIF_SELFTEST=0 ./check "$E" --tier quick > /tmp/check_seededwt_$ID.$E.log 2>&1; RC=$?
  echo "$ID $E exit=$RC $(grep -c '^VIOLATION' /tmp/check_seededwt_$ID.$E.log) violation lines; first: $(grep -m1 -A1 '^VIOLATION' /tmp/check_seededwt_$ID.$E.log | tail -1 | cut -c1-160); $(grep -m1 ' quick: ' /tmp/check_seededwt_$ID.$E.log | cut -c1-120)"
done
git -C "$WT" checkout -- . ; git -C "$WT" status --short | grep -v "_wtboot" | head -3
