#!/bin/sh
# Run once after a fresh restore, offline. Builds nothing from the network:
#  - checks that /venv has what the harness needs (piquasso editable from /repo, numpy, numba, dask)
#  - warms numba's on-disk cache into /verif/.cache/numba so the quick tier is not dominated by JIT
cd "$(dirname "$0")" || exit 2
mkdir -p .cache/numba out/work out/replays build evidence
PYTHONPATH="$(pwd)" NUMBA_CACHE_DIR="$(pwd)/.cache/numba" OMP_WAIT_POLICY=PASSIVE NUMBA_NUM_THREADS=16 \
  timeout 1500 /venv/bin/python -m dst.warm || exit 2
exit 0
