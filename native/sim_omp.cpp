// Simulator-owned OpenMP runtime and hardware_concurrency() for the permanent kernels.
//
// Compiled together with /repo/src/permanent.cpp and /repo/src/permanent_laplace.cpp
// (g++ -fopenmp -c, so the compiler emits the same GOMP_parallel lowering as in the
// shipped module) and linked WITHOUT libgomp: the four symbols the kernels import
// dynamically are answered here from scenario values.
//
//   std::thread::hardware_concurrency()  -> g_hc
//   GOMP_parallel(fn, data, n, flags)    -> team of T <= n members (OpenMP may deliver
//                                           fewer threads than requested), fn(data) is
//                                           called once per member, in a seeded order
//   omp_get_num_threads / omp_get_thread_num -> per member
//
// Team members run one after another: what is simulated is every answer of the
// concurrency query, every team size, every assignment of jobs to members and every
// completion order -- not instruction-level interleavings inside the loop body.
#include <algorithm>
#include <complex>
#include <cstdint>
#include <cstdlib>
#include <string>
#include <thread>
#include <vector>

#include "matrix.hpp"
#include "n_aryGrayCodeCounter.hpp"
#include "permanent.hpp"
#include "permanent_laplace.hpp"

static unsigned g_hc = 16;     // answer of hardware_concurrency()
static unsigned g_team = 0;    // team size delivered (0 = as requested)
static uint64_t g_seed = 1;    // order of team members (0 = ascending, 1 = descending, else xorshift shuffle)
static thread_local int t_tid = 0, t_n = 1;
static int g_calls = 0, g_last_req = 0, g_last_team = 0;

unsigned int std::thread::hardware_concurrency() noexcept { return g_hc; }

static uint64_t rnd()
{
    g_seed ^= g_seed << 13;
    g_seed ^= g_seed >> 7;
    g_seed ^= g_seed << 17;
    return g_seed;
}

template <typename T>
static int perm_impl(const T *a, int n, int m, const int *rows, const int *cols, T *out)
{
    Matrix<std::complex<T>> A(n, m);
    for (int i = 0; i < n * m; i++) A[i] = std::complex<T>(a[2 * i], a[2 * i + 1]);
    Vector<int> r(n), c(m);
    for (int i = 0; i < n; i++) r[i] = rows[i];
    for (int i = 0; i < m; i++) c[i] = cols[i];
    try {
        std::complex<T> p = permanent_cpp<T>(A, r, c);
        out[0] = p.real();
        out[1] = p.imag();
    } catch (std::string &) {
        return 1;
    }
    return 0;
}

template <typename T>
static int laplace_impl(const T *a, int n, int m, const int *rows, const int *cols, T *out, int out_len)
{
    Matrix<std::complex<T>> A(n, m);
    for (int i = 0; i < n * m; i++) A[i] = std::complex<T>(a[2 * i], a[2 * i + 1]);
    Vector<int> r(n), c(m);
    for (int i = 0; i < n; i++) r[i] = rows[i];
    for (int i = 0; i < m; i++) c[i] = cols[i];
    try {
        Vector<std::complex<T>> p = permanent_laplace_cpp<T>(A, r, c);
        int k = (int)p.size();
        for (int i = 0; i < k && i < out_len; i++) {
            out[2 * i] = p[i].real();
            out[2 * i + 1] = p[i].imag();
        }
        return k;
    } catch (std::string &) {
        return -1;
    }
}

extern "C" {
int omp_get_num_threads(void) { return t_n; }
int omp_get_thread_num(void) { return t_tid; }
int omp_get_max_threads(void) { return g_team ? (int)g_team : 4; }

void GOMP_parallel(void (*fn)(void *), void *data, unsigned num_threads, unsigned flags)
{
    (void)flags;
    unsigned team = num_threads == 0 ? 4 : num_threads;
    if (g_team && g_team < team) team = g_team;
    g_calls++;
    g_last_req = (int)num_threads;
    g_last_team = (int)team;
    std::vector<int> order(team);
    for (unsigned i = 0; i < team; i++) order[i] = (int)i;
    if (g_seed == 1) {
        std::reverse(order.begin(), order.end());
    } else if (g_seed != 0) {
        for (unsigned i = team; i > 1; i--) {
            unsigned j = (unsigned)(rnd() % i);
            std::swap(order[i - 1], order[j]);
        }
    }
    for (unsigned k = 0; k < team; k++) {
        t_tid = order[k];
        t_n = (int)team;
        fn(data);
    }
    t_tid = 0;
    t_n = 1;
}

void verif_set(unsigned hc, unsigned team, uint64_t seed)
{
    g_hc = hc;
    g_team = team;
    g_seed = seed;
}

void verif_stats(int *out)
{
    out[0] = g_calls;
    out[1] = g_last_req;
    out[2] = g_last_team;
}

int verif_permanent(const double *a, int n, int m, const int *rows, const int *cols, double *out) { return perm_impl<double>(a, n, m, rows, cols, out); }
int verif_permanent_f(const float *a, int n, int m, const int *rows, const int *cols, float *out) { return perm_impl<float>(a, n, m, rows, cols, out); }
int verif_laplace(const double *a, int n, int m, const int *rows, const int *cols, double *out, int out_len) { return laplace_impl<double>(a, n, m, rows, cols, out, out_len); }
int verif_laplace_f(const float *a, int n, int m, const int *rows, const int *cols, float *out, int out_len) { return laplace_impl<float>(a, n, m, rows, cols, out, out_len); }

// Conservation oracle for the Gray-code split: with `jobs` jobs over limits[0..n), walk every
// job's range exactly as the kernels do (counter initialised at the job's offset, next() up to
// offset_max) and count how often each code index 0..idx_max-1 is visited.  Returns 0 when every
// index is visited exactly once AND a counter initialised at an offset equals one stepped there
// from 0; otherwise a positive error code.
int verif_tiling(const int *limits_in, int n, int64_t jobs)
{
    std::vector<int> limits(limits_in, limits_in + n);
    int64_t idx_max = 1;
    for (int i = 0; i < n; i++) idx_max *= limits[i];
    if (jobs < 1 || jobs > idx_max) return 9;
    // reference walk from 0: sequence of gray codes
    std::vector<std::vector<int>> ref;
    {
        n_aryGrayCodeCounter c(limits.data(), (size_t)n, 0);
        c.set_offset_max(idx_max - 1);
        int *g = c.get();
        ref.emplace_back(g, g + n);
        for (int64_t i = 1; i < idx_max; i++) {
            int ci = 0, pv = 0, v = 0;
            if (c.next(ci, pv, v)) return 1;  // ended early
            ref.emplace_back(g, g + n);
        }
    }
    // all codes of the reference walk are distinct and within limits
    {
        std::vector<char> seen((size_t)idx_max, 0);
        for (auto &code : ref) {
            int64_t idx = 0, mul = 1;
            for (int i = 0; i < n; i++) {
                if (code[i] < 0 || code[i] >= limits[i]) return 2;
                idx += mul * code[i];
                mul *= limits[i];
            }
            if (seen[(size_t)idx]) return 3;
            seen[(size_t)idx] = 1;
        }
    }
    std::vector<int> visits((size_t)idx_max, 0);
    int64_t work_batch = idx_max / jobs;
    for (int64_t job = 0; job < jobs; job++) {
        int64_t initial_offset = job * work_batch;
        int64_t offset_max = (job + 1) * work_batch - 1;
        if (job == jobs - 1) offset_max = idx_max - 1;
        n_aryGrayCodeCounter c(limits.data(), (size_t)n, initial_offset);
        c.set_offset_max(offset_max);
        int *g = c.get();
        if (!std::equal(g, g + n, ref[(size_t)initial_offset].begin())) return 4;  // offset init != stepped
        visits[(size_t)initial_offset]++;
        for (int64_t i = initial_offset + 1; i < offset_max + 1; i++) {
            int ci = 0, pv = 0, v = 0;
            if (c.next(ci, pv, v)) break;
            if (!std::equal(g, g + n, ref[(size_t)i].begin())) return 5;
            visits[(size_t)i]++;
        }
    }
    for (int64_t i = 0; i < idx_max; i++)
        if (visits[(size_t)i] != 1) return 6;
    return 0;
}
}
